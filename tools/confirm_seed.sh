#!/bin/bash
# usage: confirm_seed.sh <PROP> <k>      (reads /tmp/seed_<PROP>_out/mut<k>.{diff,md} mut<k>_demo.py)
# Confirms in a scratch worktree: demo passes clean, fails with patch, pinned suite still passes with patch.
# Writes /verif/seeded/<PROP>-<k>/{patch.diff,demo.py,notes.md,confirm.json}
PROP="$1"; K="$2"; SRC="/tmp/seed_${PROP}_out"; WT="/tmp/confirm_${PROP}_${K}"
OUT="/verif/seeded/${PROP}-${K}"
mkdir -p "$OUT"
git -C /repo worktree remove --force "$WT" 2>/dev/null
git -C /repo worktree add -q "$WT" HEAD || exit 2
cd "$WT"
PYTHONPATH="$WT" /venv/bin/python -B "$SRC/mut${K}_demo.py" > "$OUT/demo_clean.log" 2>&1; RC_CLEAN=$?
if git apply "$SRC/mut${K}.diff"; then APPLIES=true; else APPLIES=false; fi
PYTHONPATH="$WT" /venv/bin/python -B "$SRC/mut${K}_demo.py" > "$OUT/demo_mutant.log" 2>&1; RC_MUT=$?
SUITE_NPROC=${SUITE_NPROC:-6} /verif/tools/run_suite.sh "$WT" "/tmp/confirm_suite_${PROP}_${K}" > "$OUT/suite.log" 2>&1; RC_SUITE=$?
cp "$SRC/mut${K}.diff" "$OUT/patch.diff"; cp "$SRC/mut${K}_demo.py" "$OUT/demo.py"; cp "$SRC/mut${K}.md" "$OUT/notes.md" 2>/dev/null
HEADREV=$(git -C /repo rev-parse --short HEAD)
cat > "$OUT/confirm.json" <<JSON
{"property": "$PROP", "mutant": $K, "repo_head": "$HEADREV", "patch_applies": $APPLIES,
 "demo_rc_clean": $RC_CLEAN, "demo_rc_with_patch": $RC_MUT, "suite_rc_with_patch": $RC_SUITE,
 "suite_summary": "$(grep SUITE "$OUT/suite.log" | head -1)"}
JSON
cd /; git -C /repo worktree remove --force "$WT"; rm -f /tmp/confirm_suite_${PROP}_${K}.*
tail -c 300 "$OUT/demo_clean.log" > "$OUT/demo_clean.tail"; mv "$OUT/demo_clean.tail" "$OUT/demo_clean.log"
tail -c 600 "$OUT/demo_mutant.log" > "$OUT/demo_mutant.tail"; mv "$OUT/demo_mutant.tail" "$OUT/demo_mutant.log"
cat "$OUT/confirm.json"
