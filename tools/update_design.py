#!/venv/bin/python
"""Copy seeded/RESULTS.md and benign/RESULTS.md into DESIGN.md between the marker comments."""
import os
import re

V = os.path.dirname(os.path.dirname(os.path.abspath(__file__)))
p = os.path.join(V, "DESIGN.md")
s = open(p).read()
for tag, src in (("SEED-MATRIX", "seeded/RESULTS.md"), ("BENIGN-MATRIX", "benign/RESULTS.md")):
    f = os.path.join(V, src)
    if not os.path.exists(f):
        continue
    body = "".join(l for l in open(f) if l.startswith("|"))
    s = re.sub(rf"<!-- {tag}-BEGIN -->.*?<!-- {tag}-END -->", lambda m: f"<!-- {tag}-BEGIN -->\n{body}<!-- {tag}-END -->", s, flags=re.S)
# as-built table from the evidence files
import glob
import json

rows = ["| id | tier | level | states | transitions | evaluations | distinct non-trivial | exhaustive within the stated bounds | wall s |", "|---|---|---|---|---|---|---|---|---|"]
for f in sorted(glob.glob(os.path.join(V, "evidence", "C*.json"))):
    d = json.load(open(f))
    c = d["coverage"]
    rows.append(f"| {d['property_id']} | {d['tier']} | {d['level']} | {c.get('states', '')} | {c.get('transitions', '')} | {c.get('evaluations', '')} | {c.get('distinct_nontrivial', '')} | {c.get('exhaustive', '')}{' (caps: see evidence)' if c.get('caps') not in (None, 'none') else ''} | {d.get('wall_s', '')} |")
body = "\n".join(rows) + "\n"
s = re.sub(r"<!-- ASBUILT-BEGIN -->.*?<!-- ASBUILT-END -->", lambda m: f"<!-- ASBUILT-BEGIN -->\n{body}<!-- ASBUILT-END -->", s, flags=re.S)
open(p, "w").write(s)
print("DESIGN.md updated")
