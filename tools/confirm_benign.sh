#!/bin/bash
# usage: confirm_benign.sh <PROP> <k>   (reads /tmp/benign_<PROP>_out/ben<k>.{diff,md})
# Confirms in a scratch worktree that the pinned suite still passes with the change applied.
# Writes /verif/benign/<PROP>-<k>/{patch.diff,notes.md,confirm.json}
PROP="$1"; K="$2"; SRC="/tmp/benign_${PROP}_out"; WT="/tmp/confirmb_${PROP}_${K}"
OUT="/verif/benign/${PROP}-${K}"
mkdir -p "$OUT"
git -C /repo worktree remove --force "$WT" 2>/dev/null
git -C /repo worktree add -q "$WT" HEAD || exit 2
cd "$WT"
if git apply "$SRC/ben${K}.diff"; then APPLIES=true; else APPLIES=false; fi
SUITE_NPROC=${SUITE_NPROC:-6} /verif/tools/run_suite.sh "$WT" "/tmp/confirmb_suite_${PROP}_${K}" > "$OUT/suite.log" 2>&1; RC_SUITE=$?
cp "$SRC/ben${K}.diff" "$OUT/patch.diff"; cp "$SRC/ben${K}.md" "$OUT/notes.md" 2>/dev/null
HEADREV=$(git -C /repo rev-parse --short HEAD)
cat > "$OUT/confirm.json" <<JSON
{"property": "$PROP", "change": $K, "repo_head": "$HEADREV", "patch_applies": $APPLIES,
 "suite_rc_with_patch": $RC_SUITE, "suite_summary": "$(grep SUITE "$OUT/suite.log" | head -1)"}
JSON
cd /; git -C /repo worktree remove --force "$WT"; rm -f /tmp/confirmb_suite_${PROP}_${K}.*
cat "$OUT/confirm.json"
