#!/venv/bin/python
"""
Run every kept seeded change against its check, exactly the way the brief says:
    git -C /repo apply <patch> ; ./check <ID> <tier> ; git -C /repo checkout -- .
and write /verif/seeded/<ID>-<k>/meta.json and /verif/seeded/RESULTS.md.

usage: tools/seed_matrix.py [ID-k ...]        (default: all)   env TIER=quick|thorough

The evidence directory is saved before and restored after (evidence must describe the
unchanged tree); replays written for the seeded change go to replays/ which is not committed.
"""

import json
import os
import re
import shutil
import subprocess
import sys
import time

V = "/verif"
R = "/repo"
# WORKTREE=1: apply the change in a scratch worktree of /repo (removed afterwards) and point the check at it with
# VERIF_REPO / VERIF_OUT instead of touching /repo's own working tree - lets the matrix run next to other work.
WT = "/tmp/wt_matrix_%d" % os.getpid() if os.environ.get("WORKTREE") else None
if WT:
    subprocess.run(f"git -C /repo worktree add -q --detach {WT} HEAD", shell=True, check=True)
    R = WT
OUTENV = f"VERIF_REPO={WT} VERIF_OUT=/tmp/matrix_out_{os.getpid()} " if WT else ""
TIER = os.environ.get("TIER", "quick")


def sh(cmd, **kw):
    return subprocess.run(cmd, shell=True, capture_output=True, text=True, **kw)


def dirty():
    return sh(f"git -C {R} diff --quiet").returncode != 0


def first_lines(path, n=12):
    try:
        return "".join(open(path).readlines()[:n])
    except OSError:
        return ""


def one(name):
    d = os.path.join(V, "seeded", name)
    pid = name.split("-")[0]
    patch = os.path.join(d, "patch.diff")
    confirm = json.load(open(os.path.join(d, "confirm.json"))) if os.path.exists(os.path.join(d, "confirm.json")) else {}
    meta = {
        "seed": name,
        "property": pid,
        "origin": "fresh sub-agent given only the property text and a scratch worktree of /repo; nothing from /verif",
        "files_touched": sorted(set(re.findall(r"^\+\+\+ b/(\S+)", open(patch).read(), flags=re.M))),
        "needs_to_manifest": None,
        "confirmed_in_scratch_worktree": {
            "repo_head": confirm.get("repo_head"),
            "patch_applies": confirm.get("patch_applies"),
            "demonstration_exit_without_patch": confirm.get("demo_rc_clean"),
            "demonstration_exit_with_patch": confirm.get("demo_rc_with_patch"),
            "pinned_suite_with_patch": confirm.get("suite_summary"),
            "commands": [
                "git -C /repo worktree add /tmp/confirm_<id> HEAD",
                "PYTHONPATH=<wt> /venv/bin/python -B demo.py   (exit 0 expected)",
                "git apply patch.diff ; PYTHONPATH=<wt> /venv/bin/python -B demo.py   (exit 1 expected)",
                "tools/run_suite.sh <wt>   (pinned suite, compared with BASELINE stable_pass)",
                "git -C /repo worktree remove --force /tmp/confirm_<id>",
            ],
        },
    }
    # what it needs to manifest: the paragraph of the agent's notes that says so
    notes = first_lines(os.path.join(d, "notes.md"), 200)
    m = re.search(r"(?is)(needs? to manifest[^\n]*\n?.*?)(?:\n\s*\n|\Z)", notes)
    meta["needs_to_manifest"] = re.sub(r"\s+", " ", m.group(1)).strip()[:900] if m else re.sub(r"\s+", " ", notes)[:600]
    if dirty():
        print("REPO DIRTY - refusing")
        sys.exit(2)
    ap = sh(f"git -C {R} apply {patch}")
    if ap.returncode != 0:
        meta["check_result"] = {"patch_applies_to_current_head": False, "stderr": ap.stderr[-400:]}
        return meta
    t0 = time.time()
    try:
        r = sh(f"cd {V} && {OUTENV}timeout 3000 ./check {pid} {TIER}")
    finally:
        sh(f"git -C {R} checkout -- .")
    keys = re.findall(r"^VIOLATION property=\S+ replay=\S+\s+key='(.*)'\s*$", r.stdout, flags=re.M)
    meta["check_result"] = {
        "patch_applies_to_current_head": True,
        "repo_head": sh(f"git -C {R} rev-parse --short HEAD").stdout.strip(),
        "mode": "scratch worktree (VERIF_REPO)" if WT else "/repo working tree",
        "command": f"git -C /repo apply seeded/{name}/patch.diff ; ./check {pid} {TIER} ; git -C /repo checkout -- .",
        "exit_code": r.returncode,
        "detected": r.returncode == 1 and len(keys) > 0,
        "violation_keys": keys[:8],
        "violation_key_count": len(keys),
        "harness_error": "HARNESS-ERROR" in r.stdout,
        "seconds": round(time.time() - t0, 1),
    }
    return meta


def main():
    names = sys.argv[1:] or sorted(n for n in os.listdir(os.path.join(V, "seeded")) if os.path.isdir(os.path.join(V, "seeded", n)))
    keep = os.path.join("/tmp", "evidence_keep_%d" % os.getpid())
    if not WT:
        shutil.copytree(os.path.join(V, "evidence"), keep)
    rows = []
    try:
        for n in names:
            meta = one(n)
            json.dump(meta, open(os.path.join(V, "seeded", n, "meta.json"), "w"), indent=1)
            cr = meta["check_result"]
            print(n, "detected" if cr.get("detected") else "NOT-DETECTED", cr.get("exit_code"), cr.get("violation_key_count"), cr.get("seconds"), flush=True)
            rows.append(meta)
    finally:
        sh(f"git -C {R} checkout -- .")
        if not WT:
            shutil.rmtree(os.path.join(V, "evidence"))
            shutil.copytree(keep, os.path.join(V, "evidence"))
            shutil.rmtree(keep)
    # RESULTS.md over everything that has a meta.json
    out = ["# Seeded changes and the check that reports them", "", "| seed | files | detected | exit | first key | s |", "|---|---|---|---|---|---|"]
    for n in sorted(os.listdir(os.path.join(V, "seeded"))):
        mp = os.path.join(V, "seeded", n, "meta.json")
        if not os.path.exists(mp):
            continue
        m = json.load(open(mp))
        cr = m.get("check_result", {})
        k = (cr.get("violation_keys") or [""])[0].replace("|", "/")
        out.append(f"| {n} | {', '.join(m['files_touched'])} | {'yes' if cr.get('detected') else 'NO'} | {cr.get('exit_code')} | {k[:150]} | {cr.get('seconds')} |")
    open(os.path.join(V, "seeded", "RESULTS.md"), "w").write("\n".join(out) + "\n")


try:
    main()
finally:
    if WT:
        subprocess.run(f"git -C /repo worktree remove --force {WT}", shell=True)
        shutil.rmtree(f"/tmp/matrix_out_{os.getpid()}", ignore_errors=True)
