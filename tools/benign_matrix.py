#!/venv/bin/python
"""
Run every kept property-PRESERVING change (/verif/benign/<ID>-<k>/patch.diff) against its
check: git -C /repo apply ; ./check <ID> <tier> ; git -C /repo checkout -- .  The check must
stay silent (exit 0, no VIOLATION line, no HARNESS-ERROR).  Writes meta.json per change and
/verif/benign/RESULTS.md.  Evidence is saved before and restored after.

usage: tools/benign_matrix.py [ID-k ...]      env TIER=quick|thorough
"""

import json
import os
import re
import shutil
import subprocess
import sys
import time

V = "/verif"
R = "/repo"
# WORKTREE=1: apply the change in a scratch worktree of /repo (removed afterwards) and point the check at it with
# VERIF_REPO / VERIF_OUT instead of touching /repo's own working tree - lets the matrix run next to other work.
WT = "/tmp/wt_matrix_%d" % os.getpid() if os.environ.get("WORKTREE") else None
if WT:
    subprocess.run(f"git -C /repo worktree add -q --detach {WT} HEAD", shell=True, check=True)
    R = WT
OUTENV = f"VERIF_REPO={WT} VERIF_OUT=/tmp/matrix_out_{os.getpid()} " if WT else ""
TIER = os.environ.get("TIER", "quick")


def sh(cmd):
    return subprocess.run(cmd, shell=True, capture_output=True, text=True)


def one(name):
    d = os.path.join(V, "benign", name)
    pid = name.split("-")[0]
    patch = os.path.join(d, "patch.diff")
    meta = {
        "change": name,
        "property": pid,
        "kind": "property-preserving (the property still holds with it)",
        "origin": "fresh sub-agent given only the property text and a scratch worktree of /repo; nothing from /verif",
        "files_touched": sorted(set(re.findall(r"^\+\+\+ b/(\S+)", open(patch).read(), flags=re.M))),
    }
    cj = os.path.join(d, "confirm.json")
    if os.path.exists(cj):
        meta["confirmed_in_scratch_worktree"] = json.load(open(cj))
    if sh(f"git -C {R} diff --quiet").returncode != 0:
        print("REPO DIRTY - refusing")
        sys.exit(2)
    ap = sh(f"git -C {R} apply {patch}")
    if ap.returncode != 0:
        meta["check_result"] = {"patch_applies_to_current_head": False, "stderr": ap.stderr[-400:]}
        return meta
    t0 = time.time()
    try:
        r = sh(f"cd {V} && {OUTENV}timeout 3000 ./check {pid} {TIER}")
    finally:
        sh(f"git -C {R} checkout -- .")
    keys = re.findall(r"^VIOLATION property=\S+ replay=\S+\s+key='(.*)'\s*$", r.stdout, flags=re.M)
    meta["check_result"] = {
        "patch_applies_to_current_head": True,
        "repo_head": sh(f"git -C {R} rev-parse --short HEAD").stdout.strip(),
        "mode": "scratch worktree (VERIF_REPO)" if WT else "/repo working tree",
        "command": f"git -C /repo apply benign/{name}/patch.diff ; ./check {pid} {TIER} ; git -C /repo checkout -- .",
        "exit_code": r.returncode,
        "silent": r.returncode == 0 and not keys and "HARNESS-ERROR" not in r.stdout,
        "violation_keys": keys[:8],
        "harness_error": "HARNESS-ERROR" in r.stdout,
        "tail": r.stdout[-600:] if r.returncode != 0 else "",
        "seconds": round(time.time() - t0, 1),
    }
    return meta


def main():
    base = os.path.join(V, "benign")
    names = sys.argv[1:] or sorted(n for n in os.listdir(base) if os.path.isdir(os.path.join(base, n)))
    keep = "/tmp/evidence_keep_%d" % os.getpid()
    if not WT:
        shutil.copytree(os.path.join(V, "evidence"), keep)
    try:
        for n in names:
            meta = one(n)
            json.dump(meta, open(os.path.join(base, n, "meta.json"), "w"), indent=1)
            cr = meta["check_result"]
            print(n, "silent" if cr.get("silent") else "ALARM", cr.get("exit_code"), cr.get("violation_keys"), cr.get("seconds"), flush=True)
    finally:
        sh(f"git -C {R} checkout -- .")
        if not WT:
            shutil.rmtree(os.path.join(V, "evidence"))
            shutil.copytree(keep, os.path.join(V, "evidence"))
            shutil.rmtree(keep)
    out = ["# Property-preserving changes: every check must stay silent", "", "| change | files | silent | exit | first key (if any) | s |", "|---|---|---|---|---|---|"]
    for n in sorted(os.listdir(base)):
        mp = os.path.join(base, n, "meta.json")
        if not os.path.exists(mp):
            continue
        m = json.load(open(mp))
        cr = m.get("check_result", {})
        k = (cr.get("violation_keys") or [""])[0].replace("|", "/")
        out.append(f"| {n} | {', '.join(m['files_touched'])} | {'yes' if cr.get('silent') else 'NO'} | {cr.get('exit_code')} | {k[:150]} | {cr.get('seconds')} |")
    open(os.path.join(base, "RESULTS.md"), "w").write("\n".join(out) + "\n")


try:
    main()
finally:
    if WT:
        subprocess.run(f"git -C /repo worktree remove --force {WT}", shell=True)
        shutil.rmtree(f"/tmp/matrix_out_{os.getpid()}", ignore_errors=True)
