"""Generate MANIFEST.json from the table below (kept in one place so it stays valid)."""
import json, os

CHECKS = {
 "C09": dict(level="model_checking", engine="E1",
   technique="explicit-state BFS over operation histories of the real SceneGraph against a dictionary reference forest (all histories to a depth bound, then deviation-bounded), plus exhaustive enumeration of edge-specification forms",
   text="Every history of update/re-parent/remove/base-frame/remove-geometry/query/export/copy actions over 4 frames and 2 exact matrices up to the stated depth is executed on the real SceneGraph and compared, in every reached state, with a dict-based reference forest (all ordered frame pairs, flattened export, edge-list rebuild, copy). States are merged on a canonical form that includes both caches and the hash memo. Histories are the quantifier of the property; a bounded exhaustive search over them is the strongest practical statement.",
   note="Trusts numpy matrix arithmetic and the reference forest (60 lines). Bounded by depth / deviation bound reported in the evidence; 4 frames, matrices exact in binary64.",
   design="3.C09"),
 "C02": dict(level="model_checking", engine="E1",
   technique="explicit-state BFS to a fixpoint over abstract (dirty flag, memo present, memo valid) states of a real TrackedArray and its derived handles; exhaustive enumeration of short container programs",
   text="The dirty-flag protocol is a finite state machine once byte values are abstracted to 'memo valid or not'. The search runs the real TrackedArray through every view-creation / write-route / neutral-operation / hash-read action from every reached abstract state until the frontier closes (a fixpoint, reported in the evidence), and in every state hashes every live tracked handle on its own fresh replay against the hash of its current bytes and of a fresh array. Containers (DataStore, Trimesh, visuals, paths, point cloud, scene) are covered by all programs [pre-hash] x [handle kind] x [mid hash] x write route.",
   note="Trusts numpy and xxhash. Known findings (numpy write routes that bypass the subclass, untracked aliases) are listed in known_findings.json; exploration below a violating transition is pruned.",
   design="3.C02"),
 "C06": dict(level="exploration", engine="E2",
   technique="bounded-exhaustive enumeration of all small integer arrays x all option combinations, plus threshold-magnitude families, against tuple/dict oracles",
   text="The grouping primitives are row-wise/run-wise: every branch (bit packing vs void fallback, wrap cases of blocks, require_count slicing) is selected by small discrete features that all occur among arrays of <=3 rows x <=3 columns over 3 symbols, sequences of length <=6, and values one below / at / above each packing limit. Every such input is run through every primitive with every option combination and compared with element-by-element grouping on Python tuples.",
   note="Trusts Python dict/set semantics. Larger arrays and other dtypes (strings, uint64) are outside the enumerated scope.",
   design="3.C06"),
}

NA = {}

def main():
    here = os.path.dirname(os.path.dirname(os.path.abspath(__file__)))
    props = [json.loads(l) for l in open(os.path.join(here, "properties.jsonl"))]
    checks = []
    for p in props:
        pid = p["id"]
        if pid not in CHECKS:
            continue
        c = CHECKS[pid]
        checks.append({
            "property_id": pid,
            "quick_cmd": f"./check {pid} quick",
            "thorough_cmd": f"./check {pid} thorough",
            "evidence_file": f"/verif/evidence/{pid}.json",
            "replay_cmd_template": f"./check {pid} --replay {{path}}",
            "engine": c["engine"],
            "level_claimed": {"category": c["level"], "text": c["text"], "design_ref": c["design"]},
            "level_note": c["note"],
            "technique": c["technique"],
        })
    na = []
    for p in props:
        if p["id"] not in CHECKS:
            na.append({"property_id": p["id"], "reason": NA.get(p["id"], "check not built yet in this session (planned, see DESIGN.md section 3); not a limitation of the technique")})
    man = {
        "version": 1,
        "setup_cmd": "./tools/setup.sh",
        "hooks": {
            "guard": "TRIMESH_VERIF",
            "enable": "no hooks: checks import /repo's working tree directly (VERIF_REPO, default /repo); nothing to build",
            "baseline_off_cmd": "cd /repo && /venv/bin/python -m pytest -ra -q -p no:cacheprovider --timeout=900 --continue-on-collection-errors",
            "source_commits": [],
            "add_only": True,
        },
        "engines": [
            {"name": "E1", "path": "mc/core/explorer.py", "serves_properties": [k for k, v in CHECKS.items() if v["engine"] == "E1"], "kind_free_text": "explicit-state breadth-first search over operation histories of real objects, canonical state hashing, reference model comparison in every state, deviation bounding"},
            {"name": "E2", "path": "mc/core/harness.py", "serves_properties": [k for k, v in CHECKS.items() if v["engine"] == "E2"], "kind_free_text": "bounded-exhaustive enumeration of small-scope inputs / configurations on the real code with independent exact oracles"},
            {"name": "E3", "path": "mc/core/sandbox.py", "serves_properties": [k for k, v in CHECKS.items() if v["engine"] == "E3"], "kind_free_text": "exhaustive fault enumeration (truncation, byte faults, field substitution, chunk swaps) in resource-limited workers"},
        ],
        "checks": checks,
        "not_applicable": na,
        "notes": "All checks: ./check <ID> quick|thorough ; exit 0/1/2 ; evidence in /verif/evidence/<ID>.json ; known findings in /verif/known_findings.json",
    }
    with open(os.path.join(here, "MANIFEST.json"), "w") as f:
        json.dump(man, f, indent=1)
    print("wrote MANIFEST.json with", len(checks), "checks,", len(na), "not claimed")

main()
