"""Generate MANIFEST.json from the table below (kept in one place so it stays valid)."""
import json, os

CHECKS = {
 "C09": dict(level="model_checking", engine="E1",
   technique="explicit-state BFS over operation histories of the real SceneGraph against a dictionary reference forest (all histories to a depth bound, then deviation-bounded), plus exhaustive enumeration of edge-specification forms",
   text="Every history of update/re-parent/remove/base-frame/remove-geometry/query (explicit pair and default source frame)/export/copy actions over 4 frames and 2 exact matrices (plus a search over two nearly equal placements far from the origin) up to the stated depth is executed on the real SceneGraph and compared, in every reached state, with a dict-based reference forest (all ordered frame pairs, flattened export, edge-list rebuild, copy). States are merged on a canonical form that includes both caches and the hash memo. Histories are the quantifier of the property; a bounded exhaustive search over them is the strongest practical statement.",
   note="Trusts numpy matrix arithmetic and the reference forest (60 lines). Bounded by depth / deviation bound reported in the evidence; 4 frames, matrices exact in binary64.",
   design="3.C09"),
 "C02": dict(level="model_checking", engine="E1",
   technique="explicit-state BFS to a fixpoint over abstract (dirty flag, memo present, memo valid) states of a real TrackedArray and its derived handles; exhaustive enumeration of short container programs",
   text="The dirty-flag protocol is a finite state machine once byte values are abstracted to 'memo valid or not'. The search runs the real TrackedArray through every view-creation / write-route / neutral-operation / hash-read action from every reached abstract state until the frontier closes (a fixpoint, reported in the evidence), and in every state hashes every live tracked handle on its own fresh replay against the hash of its current bytes and of a fresh array. Containers (DataStore, Trimesh, visuals, paths, point cloud, scene) are covered by all programs [pre-hash] x [handle kind] x [mid hash] x write route, and by all programs over the `mutable` switch (lock / hash / unlock / write / lock / hash, and a view held across the lock). The abstraction of the private bookkeeping is name-agnostic (every instance attribute reduced to flag / None / valid / stale) with a blindness guard.",
   note="Trusts numpy and xxhash. Known findings (numpy write routes that bypass the subclass, untracked aliases) are listed in known_findings.json; exploration below a violating transition is pruned.",
   design="3.C02"),
 "C06": dict(level="exploration", engine="E2",
   technique="bounded-exhaustive enumeration of all small integer arrays x all option combinations, plus threshold-magnitude families, against tuple/dict oracles",
   text="The grouping primitives are row-wise/run-wise: every branch (bit packing vs void fallback, wrap cases of blocks, require_count slicing) is selected by small discrete features that all occur among arrays of <=3 rows x <=3 columns over 3 symbols, sequences of length <=6, and values one below / at / above each packing limit. Every such input is run through every primitive with every option combination and compared with element-by-element grouping on Python tuples.",
   note="Trusts Python dict/set semantics. Larger arrays and other dtypes (strings, uint64) are outside the enumerated scope.",
   design="3.C06"),
 "C01": dict(level="model_checking", engine="E1",
   technique="explicit-state BFS over read/mutator histories of real Trimesh objects, states merged on data + cache contents, every reader compared with a freshly built mesh after every mutator; differential oracle (same mutators without reads)",
   text="Cache staleness is an ordering defect: read X, mutate by Y, read Z. The search enumerates every history of <=r single reads (or read-everything) before each of <=d mutators from a 45-mutator alphabet (all transform classes, inversion, masks, merging, repair, in-place edits, edits through a held view, reassignment, overrides, the four copy routes) on six start meshes, merges states on (array digests, cache keys and value digests, overrides) and after every mutator compares all 62 readers (incl. ray, nearest, contains, hull, OBB) with Trimesh(vertices.copy(), faces.copy(), process=False) carrying the same overrides; additionally the arrays produced must not depend on which values were read before.",
   note="Bounded by d mutators / r reads per segment as reported; float comparison rtol 1e-9 (looser for ill-conditioned readers); near-identity matrices left to C04; known findings (process / merge_vertices keyed on cached normals) listed in known_findings.json.",
   design="3.C01"),
 "C03": dict(level="exploration", engine="E2",
   technique="exhaustive lattice enumeration (all pillows and all ordered tetrahedra on a 4-value grid = unisolvent for the degree-3 polynomial identities) against exact Fraction integrals; finite API product",
   text="mass_properties is additive over triangles and polynomial (degree<=3 per coordinate, re-checked at run time), so exactness on all closed surfaces reduces to two polynomial identities decided by complete enumeration of a 4-valued grid (thorough; quick enumerates the 3-valued grid and all 4^9 pillows). The API layer (volume, mass, centre, inertia, area, moment_inertia_frame) is enumerated over meshes x merged x density x override x 24 rotations x 5 translations with exact rational expectations.",
   note="Assumption A1 (polynomial degree) is re-checked numerically; quick tier is complete for its lattice but not unisolvent (stated in evidence). With an overridden centre only honouring + the parallel-axis law from reported values are demanded.",
   design="3.C03"),
 "C05": dict(level="exploration", engine="E2",
   technique="bounded-exhaustive enumeration of all small face arrays (sequences and sets, degenerate and non-manifold included) against direct counting on Python sets; both graph engines",
   text="Every topological query is face-local / edge-local counting, so every branch (edge shared by 1,2,3 faces, repeated index, repeated face, unreferenced vertex, isolated face) already occurs among meshes with <=3 faces on <=5 vertices and k-subsets of the 24 oriented faces on 4 vertices; all of them are enumerated and every reader compared with an oracle that counts on tuples.",
   note="Documented conventions are taken from docstrings (adjacency = exactly-two edges; body_count counts vertex groups). Larger meshes are outside the scope.",
   design="3.C05"),
 "C19": dict(level="exploration", engine="E2",
   technique="complete grid enumeration (24 Euler conventions x angle grid^3 incl. every singular angle and both sides of it, all small integer quaternions, lattice axes, compose/decompose product) against definition-level oracles, compared at the matrix level",
   text="Conversion defects live in discrete branches (largest-diagonal branch, gimbal branch, axis-dominance branch, convention parity tables); the grids hit every branch of every convention, and each conversion is compared with elementary-rotation products / Rodrigues / quaternion sandwich at the matrix level so angle non-uniqueness cannot cause false alarms.",
   note="Tolerance 1e-9 (5e-6 within 1e-9 of a singular angle where the inverse trigonometric step is ill-conditioned by 1/cos).",
   design="3.C19"),
 "C04": dict(level="model_checking", engine="E1",
   technique="exhaustive enumeration of short histories ([read all] -> M; M -> inverse M; A -> B vs B.A) over geometry kinds x matrix alphabet on real objects against the reference model 'p -> M.p, nothing else'",
   text="The covariance laws are laws about short operation histories; every history of the three shapes is executed for 13 geometry kinds and a matrix alphabet holding every class of the statement (24 rotations, 24 mirrors, similarity, anisotropic, shear, determinants of tiny magnitude, near-identity either side of both shortcuts), with and without every derived value read beforehand, and compared with the definition. Solids additionally: valid volume kept, |det| volume law, centre of mass, normals vs triangles, bounds, area and inertia tensor law under similarities.",
   note="Identity shortcut tolerance 1e-8(1+|p|); SceneGraph's documented 1e-5 rigid-repair window for near-identity scene transforms; primitives compared as point multisets (sphere: centre and radius).",
   design="3.C04"),
 "C07": dict(level="exploration", engine="E2",
   technique="bounded-exhaustive enumeration of tagged small meshes x every mask / option combination, tag-tracking oracle",
   text="Every face and vertex carries a tag (redundantly in colours / uv and attributes). All meshes with <=2 faces from the complete ordered-face alphabet over 4-5 vertices, in vertex configurations containing exact, near and far duplicates, NaN and inf, go through merge_vertices (option product), update_faces with every boolean and every integer mask up to length 3, update_vertices with every boolean mask, the cleaners, submesh over every index sequence, split+concatenate (both engines) and concatenate; afterwards each surviving face / vertex must have the corner positions and data of the original with its tag, indices must be valid and order preserved.",
   note="Quick tier restricts the first of two faces to 4 representatives; thorough is the full product. Normals tags are checked geometrically (cached normals vs current triangles).",
   design="3.C07"),
 "C13": dict(level="exploration", engine="E2",
   technique="bounded-exhaustive enumeration: all short boolean / ternary sequences through every codec, run structures around count-dtype maxima, every boolean array of small shapes x base encodings x every lazy view (compositions of two in thorough) x every read, against numpy / list oracles",
   text="Run-length codecs and lazy index-map views are index arithmetic whose defects (off-by-one at a dtype maximum, wrong permutation, missing leading zero run) are input-shape features that all occur for sequences of length <=10, <=3 runs around 127/255/511, and arrays of <=8 cells with every flip / transpose / reshape; each is enumerated completely and compared with numpy on the dense array. One defect gives one key: a failing read of a view is reported only if the wrapped encoding answers the same read correctly.",
   note="Known findings (get_value on lazy views, mask on sparse/flipped/transposed, sparse indices of flat run-length views) are listed in known_findings.json. `gather` and run-length data are only demanded where documented (1D / flat / boolean).",
   design="3.C13"),
 "C10": dict(level="model_checking", engine="E1",
   technique="exhaustive enumeration of action histories (depth 2, with and without cache-filling reads) on real Scene objects against a placement-list reference model",
   text="A scene is described by my own forest and geometry arrays; the reference is the explicit list of (node, geometry, world matrix) placements. For every scene of the family (chain / instanced templates x edge transforms incl. uniform scale, mixed kinds, empty frame, unreferenced geometry, planar drawings placed in and out of their plane) every history of <=2 actions (copy, uniform / per-axis scaled, rezero, apply_transform, convert_units, + , append_scenes of 3, subscene, edge update, shared-geometry edits, add / delete geometry, graph-level removal of a leaf node) is executed with and without reading every quantity first, and bounds, extents, centroid, area, volume, triangles, dump, to_mesh and convex hull are compared with the placement list; actions returning a new scene must leave the source unchanged.",
   note="Second actions after name-changing first actions are restricted to placement-level actions (the model does not track library-generated names). Similarity node transforms only.",
   design="3.C10"),
 "C11": dict(level="exploration", engine="E2",
   technique="bounded-exhaustive enumeration of lattice meshes x direction set x every combinatorially distinct plane offset, exact Fraction side classification and triangle-clipping oracle",
   text="The slicing code is a per-triangle case analysis on the sign pattern of three vertices; for each of 8 lattice meshes (convex, non-convex, genus 1, two bodies, open, a plate with a non-convex through pocket) and 15 directions every offset through a vertex height and strictly between consecutive vertex heights is enumerated, which realises every sign pattern in every vertex rotation. Sections are compared with exact clipping (on plane, on surface, complete, closed loops, attributed face), multiplane sections with non-unit normals, slices with side / on-surface / area additivity, caps with volume additivity, exact cross-section area and watertightness of convex halves for all three triangulation engines.",
   note="Coverage / closed-loop clauses only where the statement demands them (no mesh edge in the plane / general position). Known finding: capped halves of a non-convex solid when the plane passes through vertices.",
   design="3.C11"),
 "C08": dict(level="exploration", engine="E2",
   technique="complete product enumeration: geometry family x exporter/loader pairs x encoding options x {file object, path on disk}, with per-format stored-precision oracles",
   text="Round-trip defects are selected by discrete features (face count modulo a batch size, index width, a skipped empty geometry shifting mesh indices, colour kind, nested instancing): the family contains one geometry per feature and the complete product with 11 mesh formats and their options, 8 scene formats, point-cloud and path formats is executed; triangles must come back in order with coordinates equal to float32(source) / bit exact / half a unit of the written digits, colours where the format stores them, instance placement by world-space triangle multiset, and the exported object must be unchanged.",
   note="Known findings: 3MF cannot represent a node with both geometry and children, and loses everything when the scene holds an empty mesh. ASCII PLY does not store face colours (by design, not demanded). DXF/SVG only for planar paths.",
   design="3.C08"),
 "C12": dict(level="exploration", engine="E2",
   technique="complete grids of rays and query points x meshes x scale variants x both engines against brute-force evaluation over all triangles, judged only in general position by a fixed margin",
   text="Acceleration defects (candidate culling, forward filtering, first-hit selection, multi-hit stepping, de-duplication across rays, tie resolution) show up as a disagreement with testing every triangle; the grids contain origins inside and outside, collinear origins with equal directions, axis-aligned / diagonal / oblique directions, non-convex and thin meshes, and scales 1e-2 .. 1e2 plus a far translation. Each case is classified by the oracle (Moeller-Trumbore on all triangles) as in general position or not with the margin the property names; only in-domain cases are judged (counts in the evidence).",
   note="Embree is float32: locations compared at 2e-5 of the coordinate magnitude; proximity values allow the library's absolute merge tolerance (1e-7).",
   design="3.C12"),
 "C14": dict(level="exploration", engine="E2",
   technique="exhaustive enumeration of every splitting x entity permutation x direction assignment of lattice drawings up to an entity bound, exact Fraction region oracle; short transform / export histories with a differential oracle",
   text="Region reconstruction is graph traversal with in-place direction flips: its failures are orderings of entities. For 7 polygonal drawings every cut set of every loop, every permutation and every direction assignment (<=4 entities quick, <=5 thorough: 5.5 M variants) is built and compared with exact closed-path count, shell/hole nesting, area and length; arc drawings are checked for invariance over all orders/directions; (reads)? -> similarity transform -> reads must follow the scaling law, equal a freshly built path and not depend on what was read before; DXF, SVG and dict re-imports must preserve the regions.",
   note="Exactness only for polygonal input (as stated); arcs: invariance and scaling law.",
   design="3.C14"),
 "C16": dict(level="exploration", engine="E2",
   technique="exhaustive enumeration of every k-subset of a 3x3x3 lattice (and 4x4 in 2D) with exact integer / Fraction oracles for rank, facet sidedness and the minimal enclosing sphere",
   text="Hull and bounding-volume code fails on ties (coplanar, cocircular, cospherical points) and on supports of different size; every 4- and 5-subset (6 in thorough) of the 27-point lattice contains all of these and is small enough for exact oracles: affine rank, every input point on the inner side of every hull facet in integer arithmetic, hull watertight / outward by counting, exact AABB, rigid tight centred OBB, containing sphere, minimal sphere by brute force over all 2/3/4-point supports; scaled (1e-3, 1e3) and far-translated (1e6) copies of a fixed residue class, clustered sets, 2D rectangles, and the Geometry3D bounding primitives on lattice meshes.",
   note="Known findings: minimum_nsphere is not minimal when the support has 2 or 3 points; convex_hull of sets clustered at 1e-7 is left with holes. Cylinder containment to the method's own 1e-4 tolerance.",
   design="3.C16"),
 "C18": dict(level="exploration", engine="E2",
   technique="exhaustive enumeration of every face subset re-wound / removed / subdivided on lattice manifold meshes, oracles by direct counting and exact lattice arithmetic",
   text="Winding repair is a BFS over face adjacency with a per-body volume test: its failures depend on which subset of faces is wrong and on traversal order, so every one of the 2^F subsets (F <= 12; per body for larger meshes) is re-wound and repaired in both multibody modes with and without normals read beforehand; every single face, pair of faces and quad is removed and refilled; subdivision is run on all faces and on every face subset, size-bounded subdivision over bounds x iteration caps, Loop subdivision twice. Oracles: vertices byte-identical, unoriented triangle multiset, consistent winding and positive volume per body by counting, exact area / volume (dyadic midpoints), Euler number.",
   note="fill_holes is demanded for triangle / quad holes with simple boundaries on meshes with >= 3 faces (its documented domain).",
   design="3.C18"),
 "C15": dict(level="exploration", engine="E2",
   technique="complete small parameter grids x placements for every creation function with counting / exact tessellation oracles; exhaustive edit histories (depth 2, 3 in thorough) on primitives with a differential oracle (freshly constructed primitive)",
   text="Creation defects are selected by parity / minimum values of section counts, partial angles, hole counts, engines and by the sign of the placement determinant; all of them lie on small grids that are enumerated completely (sections 3..12 and 32, 48 signed-permutation placements plus a generic rigid one, segment forms). Validity is decided by my own counting and signed volume, measures by exact formulas of the inscribed n-gon tessellation (prism, pyramid, revolved polygon by Green's theorem) and inscribed + convergent for spheres, capsules and tori, placement by comparing with the untransformed solid moved by the matrix. 'A primitive's mesh reflects its current parameters' is decided on every edit history of bounded length (including edits of a few 1e-6) against a primitive freshly built from the current parameter values.",
   note="Known finding: extrude_polygon with earcut on holes with collinear edges (T-junction triangulation -> misplaced walls).",
   design="3.C15"),
 "C17": dict(level="model_checking", engine="E1",
   technique="exhaustive two-object histories: object states (incl. read-then-edited-in-place before copying) x copy routes x every edit (every ordered pair in thorough) on either side, snapshot comparison plus a structural aliasing scan of the two object graphs",
   text="Aliasing between a copy and its source only shows when one side is edited after (or just before) copying and the other side is read afterwards. For 26 object states of all geometry kinds and the three copy routes, the copy's snapshot must equal the source's, and after every edit of the alphabet on either side a fresh snapshot of the other side must equal its pre-edit value; independently every mutable object reachable from both objects is reported with its attribute path.",
   note="Known finding: copy.copy(mesh) shares cached mutable objects (MassProperties, sparse matrices). Read-only shared arrays and opaque third-party objects are not counted as mutable state.",
   design="3.C17"),
 "C20": dict(level="fault_enumeration", engine="E3",
   technique="exhaustive fault enumeration: every truncation, every offset x byte alphabet, every numeric token / header integer x extreme values, line / chunk swaps, duplications, removals and two-file splices of one valid file per loader, executed on the real loaders (by file object, by path, by path with explicit type) in resource-limited processes",
   text="For one small valid file per native loader (binary and ascii stl / ply, off, obj, glb, gltf, 3mf, dae, zae, 3dxml, xyz, dxf, svg, binvox, xaml, zip deflated and stored, tar.gz) the complete single-fault neighbourhood is enumerated (every truncation length; every byte offset x 11-value alphabet + 2 bit flips; every numeric token and aligned header integer x extreme values; swaps / duplications / removals of lines or aligned chunks; splices with another valid file) and every mutated byte string is loaded in a worker with a 2 GiB address-space cap, a 4 s soft / 20 s hard time limit and a file-descriptor table comparison taken while the result (or exception) is still referenced. Outcome classes other than return / ordinary exception, CPU beyond max(2 s, 2 ms per byte), peak memory growth beyond 256 MiB and a self-opened file left open are violations. Growth: every contiguous range of lines / 16-byte chunks of a seed is repeated in place k and 4k times (48 KiB / 192 KiB quick, 128 / 512 KiB thorough); the CPU time at 4k may not exceed 10x the time at k (measured three times before it is reported).",
   note="Seeds above 1500 bytes (dxf, dae, zae) are enumerated on a fixed grid in the quick tier (every 4th truncation, every 16th byte offset); thorough uses every offset, pairs of byte faults on a stride-7 grid and all of load / load_mesh / load_scene. meshio / gmsh backed formats are third-party parsers and are not enumerated. A file object handed in by the caller is not required to be closed.",
   design="3.C20"),
}

NA = {}

def main():
    here = os.path.dirname(os.path.dirname(os.path.abspath(__file__)))
    props = [json.loads(l) for l in open(os.path.join(here, "properties.jsonl"))]
    checks = []
    for p in props:
        pid = p["id"]
        if pid not in CHECKS:
            continue
        c = CHECKS[pid]
        checks.append({
            "property_id": pid,
            "quick_cmd": f"./check {pid} quick",
            "thorough_cmd": f"./check {pid} thorough",
            "evidence_file": f"/verif/evidence/{pid}.json",
            "replay_cmd_template": f"./check {pid} --replay {{path}}",
            "engine": c["engine"],
            "level_claimed": {"category": c["level"], "text": c["text"], "design_ref": c["design"]},
            "level_note": c["note"],
            "technique": c["technique"],
        })
    na = []
    for p in props:
        if p["id"] not in CHECKS:
            na.append({"property_id": p["id"], "reason": NA.get(p["id"], "check not built yet in this session (planned, see DESIGN.md section 3); not a limitation of the technique")})
    man = {
        "version": 1,
        "setup_cmd": "./tools/setup.sh",
        "hooks": {
            "guard": "TRIMESH_VERIF",
            "enable": "no hooks: checks import /repo's working tree directly (VERIF_REPO, default /repo); nothing to build",
            "baseline_off_cmd": "cd /repo && /venv/bin/python -m pytest -ra -q -p no:cacheprovider --timeout=900 --continue-on-collection-errors",
            "source_commits": [],
            "add_only": True,
        },
        "engines": [
            {"name": "E1", "path": "mc/core/explorer.py", "serves_properties": [k for k, v in CHECKS.items() if v["engine"] == "E1"], "kind_free_text": "explicit-state breadth-first search over operation histories of real objects, canonical state hashing, reference model comparison in every state, deviation bounding"},
            {"name": "E2", "path": "mc/core/harness.py", "serves_properties": [k for k, v in CHECKS.items() if v["engine"] == "E2"], "kind_free_text": "bounded-exhaustive enumeration of small-scope inputs / configurations on the real code with independent exact oracles"},
            {"name": "E3", "path": "mc/core/sandbox.py", "serves_properties": [k for k, v in CHECKS.items() if v["engine"] == "E3"], "kind_free_text": "exhaustive fault enumeration (truncation, byte faults, field substitution, chunk swaps) in resource-limited workers"},
        ],
        "checks": checks,
        "not_applicable": na,
        "notes": "All checks: ./check <ID> quick|thorough ; exit 0/1/2 ; evidence in /verif/evidence/<ID>.json ; known findings in /verif/known_findings.json",
    }
    with open(os.path.join(here, "MANIFEST.json"), "w") as f:
        json.dump(man, f, indent=1)
    print("wrote MANIFEST.json with", len(checks), "checks,", len(na), "not claimed")

main()
