#!/bin/bash
# Nothing to compile: validate that the interpreter, the repo and the schema files are usable offline.
set -e
cd "$(dirname "$0")/.."
mkdir -p evidence replays
/venv/bin/python -B - <<'PY'
import sys, json
sys.path.insert(0, "/repo")
import numpy, scipy, networkx, jsonschema
import trimesh
json.load(open("mc/schemas/EVIDENCE.schema.json"))
m = json.load(open("MANIFEST.json"))
jsonschema.validate(m, json.load(open("mc/schemas/MANIFEST.schema.json")))
print("setup ok: trimesh", trimesh.__version__, "from", trimesh.__file__, "checks:", len(m["checks"]))
PY
