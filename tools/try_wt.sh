#!/bin/bash
# usage: try_wt.sh <patch.diff> <ID> [tier]  -- applies the patch in a scratch worktree of /repo (never /repo itself),
# points the check at it (VERIF_REPO, VERIF_OUT so /verif/evidence is not touched), removes the worktree afterwards
P="$1"; ID="$2"; TIER="${3:-quick}"; WT="/tmp/wt_try_$$"
git -C /repo worktree add -q --detach "$WT" HEAD || exit 2
( cd "$WT" && git apply "$P" ) || { echo "PATCH DOES NOT APPLY"; git -C /repo worktree remove --force "$WT"; exit 3; }
cd /verif
VERIF_REPO="$WT" VERIF_OUT="/tmp/try_out_$$" ./check "$ID" "$TIER" > "/tmp/try_${ID}_$$.log" 2>&1
RC=$?
git -C /repo worktree remove --force "$WT"; rm -rf "/tmp/try_out_$$"
grep -E "VIOLATION|HARNESS|done" "/tmp/try_${ID}_$$.log" | cut -c1-300 | head -8
echo "rc=$RC"
