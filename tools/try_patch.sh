#!/bin/bash
# usage: try_patch.sh <patch.diff> <ID> [tier]   -- applies patch to /repo, runs the check, always reverts
P="$1"; ID="$2"; TIER="${3:-quick}"
cd /repo || exit 2
if ! git diff --quiet; then echo "REPO DIRTY - refusing"; exit 2; fi
git apply "$P" || { echo "PATCH DOES NOT APPLY"; exit 3; }
cd /verif
./check "$ID" "$TIER" > /tmp/try_$ID.log 2>&1
RC=$?
git -C /repo checkout -- .
grep -E "VIOLATION|HARNESS|done" /tmp/try_$ID.log | cut -c1-260 | head -12
echo "rc=$RC"
