#!/bin/bash
# usage: run_suite.sh <repo-dir> [out-prefix]
# Runs the pinned suite (with xdist) in <repo-dir>, then lists baseline stable_pass tests that did not pass.
DIR="${1:-/repo}"
OUT="${2:-/tmp/suite_$$}"
cd "$DIR" || exit 2
export OPENBLAS_NUM_THREADS=1 OMP_NUM_THREADS=1
/venv/bin/python -m pytest -q -p no:cacheprovider --timeout=900 --continue-on-collection-errors \
   -n "${SUITE_NPROC:-8}" --junitxml="$OUT.xml" > "$OUT.log" 2>&1
/venv/bin/python - "$OUT.xml" <<'PY'
import json, sys
import xml.etree.ElementTree as ET
base = json.load(open('/root/.vp/BASELINE.json'))
stable = set(base['stable_pass'])
passed = set()
for tc in ET.parse(sys.argv[1]).getroot().iter('testcase'):
    name = tc.get('classname') + '::' + tc.get('name')
    if not any(c.tag in ('failure', 'error', 'skipped') for c in tc):
        passed.add(name)
missing = sorted(stable - passed)
print(f"SUITE passed={len(passed)} stable={len(stable)} stable_not_passed={len(missing)}")
for m in missing:
    print("  NOT-PASSED", m)
sys.exit(1 if missing else 0)
PY
