"""
C18 - repair and subdivision keep the surface and restore validity.

Engine E2: lattice manifold meshes (tetrahedron, box, octahedron, genus-1 ring, two bodies,
open box) x EVERY subset of faces re-wound (2^F, F <= 12 exhaustively; larger meshes on
every subset of one body) -> fix_normals (auto / forced multibody, normals read before or
not); every single face, every pair of faces and every quad removed -> fill_holes;
subdivide on all faces and on every face subset; subdivide_to_size over edge bounds x
iteration caps; subdivide_loop.  Oracles: C05 counting (watertight, winding), exact signed
volumes per body, triangle multisets, exact area / volume (midpoints are dyadic).
"""

import itertools

import numpy as np

from mc.core import harness
from mc.props.c05_topology import Topo
from mc.props.c11_section import mesh_family as c11_family

LEVEL = "exploration"


def meshes():
    fam = c11_family()
    out = {}
    for k in ("tetrahedron", "box", "octahedron", "square_ring", "two_boxes", "open_box"):
        V, F = fam[k]
        out[k] = (np.asarray(V, dtype=float), np.asarray(F))
    tv, tf = out["tetrahedron"]
    bv, bf = out["box"]
    out["tetrahedron+box"] = (np.vstack([tv, bv + [10.0, 0, 0]]), np.vstack([tf, bf + len(tv)]))
    out["two_tetrahedra"] = (np.vstack([tv, tv + [7.0, 1, 0]]), np.vstack([tf, tf + len(tv)]))
    # two bodies touching at a corner: coincident but distinct vertices (indices 7 and 8 + 0)
    out["boxes_touching_at_a_corner"] = (np.vstack([bv, bv + bv.max(axis=0) - bv.min(axis=0)]), np.vstack([bf, bf + len(bv)]))
    # an unmerged seam: tetrahedron as a triangle soup (every face has its own vertices)
    out["tetrahedron_soup"] = (tv[tf].reshape(-1, 3).copy(), np.arange(12).reshape(-1, 3))
    return out


def signed_volume6(V, F):
    tri = V[F]
    return float(np.einsum("ij,ij->i", tri[:, 0], np.cross(tri[:, 1], tri[:, 2])).sum())


def area2(V, F):
    tri = V[F]
    return float(np.linalg.norm(np.cross(tri[:, 1] - tri[:, 0], tri[:, 2] - tri[:, 0]), axis=1).sum())


def unoriented(F):
    return sorted(tuple(sorted(int(i) for i in f)) for f in F)


def bodies(F, nv):
    topo = Topo([tuple(f) for f in F], nv)
    return topo.face_components()


# ---------------------------------------------------------------------------


def check_fix_normals(t, name, V, F0, flips, multibody, pre_read, case):
    import trimesh

    F = F0.copy()
    F[list(flips)] = F[list(flips)][:, ::-1]
    m = trimesh.Trimesh(V.copy(), F.copy(), process=False)
    if pre_read:
        m.face_normals, m.vertex_normals, m.face_adjacency, m.is_winding_consistent, m.volume
    t.evaluations += 1
    try:
        m.fix_normals(multibody=multibody)
    except Exception as e:
        t.violation(f"fix_normals raises {type(e).__name__} [{name}]", case, {"exc": repr(e)[:200]})
        return
    V1, F1 = np.asarray(m.vertices), np.asarray(m.faces)
    if V1.tobytes() != V.tobytes():
        t.violation("fix_normals moves a vertex", case, {})
        return
    if unoriented(F1) != unoriented(F0):
        t.violation("fix_normals changes the set of triangles", case, {})
        return
    topo = Topo([tuple(f) for f in F1], len(V))
    nb = len(bodies(F0, len(V)))
    forced = multibody is True or (multibody is None and nb > 1)
    cls = f"{'multi-body' if nb > 1 else 'single body'}; multibody={multibody}; normals {'read before' if pre_read else 'not read'}"
    if not topo.winding():
        t.violation(f"fix_normals leaves inconsistent winding [{cls}]", case, {"faces": F1})
        return
    if nb == 1 or forced:
        for comp in bodies(F1, len(V)):
            if signed_volume6(V, F1[comp]) <= 0:
                t.violation(f"fix_normals leaves a body wound inwards [{cls}]", case, {"body": comp})
                return
    elif signed_volume6(V, F1) <= 0 and multibody is False:
        # multibody=False only promises the whole to be positive
        t.violation(f"fix_normals(multibody=False) leaves the mesh with negative total volume [{cls}]", case, {})
        return
    # normals served afterwards belong to the new winding
    fn = np.asarray(m.face_normals)
    tri = V[F1]
    g = np.cross(tri[:, 1] - tri[:, 0], tri[:, 2] - tri[:, 0])
    g /= np.linalg.norm(g, axis=1)[:, None]
    if np.abs(fn - g).max() > 1e-9:
        t.violation(f"fix_normals: face_normals read afterwards do not match the new winding [{cls}]", case, {})


def _w_flips(task):
    name, body_only, sl, nsl = task
    t = harness.Tally()
    V, F = meshes()[name]
    nf = len(F)
    comps = bodies(F, len(V))
    domain = list(range(nf)) if body_only is None else comps[body_only]
    k = 0
    for r in range(len(domain) + 1):
        for sub in itertools.combinations(domain, r):
            k += 1
            if k % nsl != sl:
                continue
            t.nontrivial_count += 1
            for multibody in (None, True) if len(comps) > 1 else (None, False):
                for pre in (False, True):
                    case = {"family": "flips", "mesh": name, "flipped": list(sub), "multibody": multibody, "pre_read": pre}
                    check_fix_normals(t, name, V, F, sub, multibody, pre, case)
    t.sample({"family": "flips", "mesh": name, "flipped": list(domain[:2])}, limit=1)
    return t


def _w_holes(task):
    name = task
    import trimesh

    t = harness.Tally()
    V, F = meshes()[name]
    nf = len(F)
    topo0 = Topo([tuple(f) for f in F], len(V))
    adj_pairs = [(a[0], a[1]) for a in topo0.adj]
    removals = [(i,) for i in range(nf)] + list(itertools.combinations(range(nf), 2))
    for rem in removals:
        keep = [i for i in range(nf) if i not in rem]
        F1 = F[keep]
        case = {"family": "holes", "mesh": name, "removed": list(rem)}
        t.evaluations += 1
        t.nontrivial_count += 1
        # hole boundary sizes: boundary edges of the remaining mesh, grouped in cycles
        tp = Topo([tuple(f) for f in F1], len(V))
        bedges = [e for e, c in tp.count.items() if c == 1]
        if not bedges:
            continue
        comps = Topo.components(len(V), bedges)
        cyc = [c for c in comps if any(v in c for e in bedges for v in e) and len(c) > 1]
        sizes = sorted(sum(1 for e in bedges if e[0] in c) for c in cyc)
        # vertices where two holes touch make boundary cycles ambiguous: degree > 2
        deg = {}
        for a, b in bedges:
            deg[a] = deg.get(a, 0) + 1
            deg[b] = deg.get(b, 0) + 1
        simple = all(d == 2 for d in deg.values())
        small = all(s in (3, 4) for s in sizes)
        m = trimesh.Trimesh(V.copy(), F1.copy(), process=False)
        try:
            m.fill_holes()
        except Exception as e:
            t.violation(f"fill_holes raises {type(e).__name__}", case, {"exc": repr(e)[:200]})
            continue
        V2, F2 = np.asarray(m.vertices), np.asarray(m.faces)
        cls = f"holes {sizes}{'' if simple else ' touching at a vertex'}"
        if len(V2) != len(V) or V2.tobytes() != V.tobytes():
            t.violation("fill_holes adds or moves vertices", case, {})
            continue
        if unoriented(F2[: len(F1)]) != unoriented(F1):
            t.violation("fill_holes changes existing faces", case, {})
            continue
        # fill_holes documents an early exit for meshes with fewer than 3 faces
        if small and simple and name not in ("open_box", "tetrahedron_soup") and len(F1) >= 3:
            tp2 = Topo([tuple(f) for f in F2], len(V))
            if not tp2.watertight():
                t.violation(f"fill_holes leaves a triangle / quad hole open [{name}; {cls}]", case, {"n_faces": len(F2)})
            elif not tp2.winding():
                t.violation(f"fill_holes adds faces with the wrong winding [{name}; {cls}]", case, {})
            else:
                bverts = set(v for e in bedges for v in e)
                if any(int(i) not in bverts for f in F2[len(F1):] for i in f):
                    t.violation(f"fill_holes uses vertices that are not on the hole boundary [{cls}]", case, {})
    return t


def _w_subdivide(task):
    name = task
    import trimesh

    t = harness.Tally()
    V, F = meshes()[name]
    nf = len(F)
    A0, V60 = area2(V, F), signed_volume6(V, F)
    tp0 = Topo([tuple(f) for f in F], len(V))
    subsets = [None]
    if nf <= 8:
        subsets += [list(s) for r in range(1, nf + 1) for s in itertools.combinations(range(nf), r)]
    else:
        subsets += [[i] for i in range(nf)] + [list(range(0, nf, 2)), list(range(nf // 2)), list(range(nf - 1))]
    for sub in subsets:
        case = {"family": "subdivide", "mesh": name, "face_index": sub}
        t.evaluations += 1
        t.nontrivial_count += 1
        m = trimesh.Trimesh(V.copy(), F.copy(), process=False)
        try:
            s = m.subdivide(face_index=None if sub is None else np.array(sub))
        except Exception as e:
            t.violation(f"subdivide raises {type(e).__name__} [{'all faces' if sub is None else 'face subset'}]", case, {"exc": repr(e)[:200]})
            continue
        V1, F1 = np.asarray(s.vertices), np.asarray(s.faces)
        cls = "all faces" if sub is None else "face subset"
        if len(V1) < len(V) or V1[: len(V)].tobytes() != V.tobytes():
            t.violation(f"subdivide does not keep the original vertices as a prefix [{cls}]", case, {})
            continue
        if abs(area2(V1, F1) - A0) > 1e-9 * A0:
            t.violation(f"subdivide changes the area [{cls}]", case, {"got": area2(V1, F1) / 2, "want": A0 / 2})
        if abs(signed_volume6(V1, F1) - V60) > 1e-9 * abs(V60) and name != "open_box":
            t.violation(f"subdivide changes the volume [{cls}]", case, {})
        want_faces = nf + 3 * (nf if sub is None else len(sub))
        if len(F1) != want_faces:
            t.violation(f"subdivide returns an unexpected number of faces [{cls}]", case, {"got": len(F1), "want": want_faces})
        if sub is None:
            tp1 = Topo([tuple(f) for f in F1], len(V1))
            if tp1.watertight() != tp0.watertight() or tp1.winding() != tp0.winding():
                t.violation("subdivide(all faces) does not preserve watertightness / winding", case, {})
            if tp1.euler() != tp0.euler():
                t.violation("subdivide(all faces) changes the Euler number", case, {"got": tp1.euler(), "want": tp0.euler()})
            # every new vertex is a midpoint of an original edge
            mids = {tuple(((V[a] + V[b]) / 2).tolist()) for a, b in tp0.unique}
            if any(tuple(p.tolist()) not in mids for p in V1[len(V):]):
                t.violation("subdivide(all faces) adds a vertex that is not an edge midpoint", case, {})
    # size bounded subdivision
    edge = float(np.linalg.norm(V[F[:, 0]] - V[F[:, 1]], axis=1).max())
    for frac, max_iter in itertools.product((2.0, 1.0, 0.5, 0.25), (1, 2, 10)):
        case = {"family": "subdivide_to_size", "mesh": name, "max_edge": edge * frac, "max_iter": max_iter}
        t.evaluations += 1
        m = trimesh.Trimesh(V.copy(), F.copy(), process=False)
        try:
            s = m.subdivide_to_size(max_edge=edge * frac, max_iter=max_iter)
            V1, F1 = np.asarray(s.vertices), np.asarray(s.faces)
            e = np.linalg.norm(V1[F1[:, [0, 1, 2]]] - V1[F1[:, [1, 2, 0]]], axis=2).max()
            if e > edge * frac * (1 + 1e-9):
                t.violation("subdivide_to_size returns an edge longer than the bound", case, {"got": float(e)})
            elif abs(area2(V1, F1) - A0) > 1e-9 * A0:
                t.violation("subdivide_to_size changes the area", case, {})
            elif name != "open_box" and abs(signed_volume6(V1, F1) - V60) > 1e-9 * abs(V60):
                t.violation("subdivide_to_size changes the volume", case, {})
        except ValueError:
            # documented: max_iter exceeded
            need = int(np.ceil(np.log2(max(1.0, 1.0 / frac)))) if frac < 1 else 0
            longest = float(np.linalg.norm(V[F[:, [0, 1, 2]]] - V[F[:, [1, 2, 0]]], axis=2).max())
            need = int(np.ceil(np.log2(max(1.0, longest / (edge * frac)))))
            if max_iter >= need + 1:
                t.violation("subdivide_to_size raises although max_iter suffices", case, {"need": need})
        except Exception as e:
            t.violation(f"subdivide_to_size raises {type(e).__name__}", case, {"exc": repr(e)[:200]})
    for it in (1, 2):
        case = {"family": "subdivide_loop", "mesh": name, "iterations": it}
        t.evaluations += 1
        m = trimesh.Trimesh(V.copy(), F.copy(), process=False)
        try:
            s = m.subdivide_loop(iterations=it)
            F1 = np.asarray(s.faces)
            tp1 = Topo([tuple(f) for f in F1], len(s.vertices))
            if len(F1) != nf * 4**it:
                t.violation("subdivide_loop returns an unexpected number of faces", case, {"got": len(F1)})
            elif tp1.watertight() != tp0.watertight() or tp1.winding() != tp0.winding() or tp1.euler() != tp0.euler():
                t.violation("subdivide_loop does not preserve watertightness / winding / Euler number", case, {})
            elif name != "open_box" and signed_volume6(np.asarray(s.vertices), F1) <= 0:
                t.violation("subdivide_loop turns the solid inside out", case, {})
        except Exception as e:
            t.violation(f"subdivide_loop raises {type(e).__name__}", case, {"exc": repr(e)[:200]})
    return t


def _run(task):
    return task[0](task[1])


def replay(case):
    t = harness.Tally()
    fam = case["family"]
    V, F = meshes()[case["mesh"]]
    if fam == "flips":
        check_fix_normals(t, case["mesh"], V, F, case["flipped"], case["multibody"], case["pre_read"], case)
    elif fam == "holes":
        t.merge(_w_holes(case["mesh"]))
    else:
        t.merge(_w_subdivide(case["mesh"]))
    return [(k, d) for k, c, d in t.violations]


def main(run):
    tier = run.tier
    tasks = []
    NS = 16
    fam = meshes()
    for name, (V, F) in fam.items():
        if name in ("open_box", "tetrahedron_soup"):
            continue
        nf = len(F)
        comps = bodies(F, len(V))
        if nf <= 12:
            nsl = NS if nf > 8 else 1
            for sl in range(nsl):
                tasks.append((_w_flips, (name, None, sl, nsl)))
        else:
            # larger meshes: every subset of each single body with <= 12 faces (complete for that body)
            for bi, comp in enumerate(comps):
                if len(comp) <= 12:
                    nsl = NS if len(comp) > 8 else 1
                    for sl in range(nsl):
                        tasks.append((_w_flips, (name, bi, sl, nsl)))
                elif tier == "thorough" and len(comp) <= 16:
                    for sl in range(64):
                        tasks.append((_w_flips, (name, bi, sl, 64)))
    for name in fam:
        tasks.append((_w_holes, name))
        tasks.append((_w_subdivide, name))
    run.log(f"{len(tasks)} tasks")
    res = harness.pmap(_run, tasks)
    run.merge(res)
    cov = {
        "exhaustive": True,
        "rule": "every subset of faces re-wound for meshes / bodies with <= 12 faces (2^12 = 4096 for the box) x multibody mode x normals read before or not; every single face and every pair of faces removed then fill_holes; subdivide on all faces and every face subset (<= 8 faces) or structured subsets; subdivide_to_size over 4 bounds x 3 iteration caps; subdivide_loop 1-2 iterations",
        "meshes": list(fam),
    }
    return run.finish(cov, assumptions=["fill_holes is only required to close holes that are triangles or quads with simple boundaries", "fix_normals with multibody=False only promises consistent winding and positive total volume"])
