"""
C05 - topological queries equal their combinatorial definitions.

Engine E2: every face array of a small scope (all sequences of <=2 (quick) / <=3
(thorough) faces over 4 and 5 vertices, including repeated indices, repeated faces and
unreferenced vertices; every set of 4 (5, 6) non-degenerate oriented faces on 4 vertices;
a list of closed 6-vertex surfaces) is given to Trimesh(process=False) and every
topological reader is compared with direct counting on Python tuples / sets.
"""

import itertools
from collections import Counter

import numpy as np

from mc.core import harness

LEVEL = "exploration"

# generic positions (no three collinear, no four coplanar among the first six)
POS = np.array(
    [[0, 0, 0], [3, 0, 0], [0, 3, 0], [0, 0, 3], [3, 3, 1], [1, 2, 5], [4, 1, 2], [2, 5, 3]], dtype=np.float64
)


# ---------------------------------------------------------------------------
# oracle: direct counting on the faces
# ---------------------------------------------------------------------------


class Topo:
    def __init__(self, faces, nv):
        self.faces = [tuple(int(i) for i in f) for f in faces]
        self.nv = nv
        F = self.faces
        self.edges = [e for f in F for e in ((f[0], f[1]), (f[1], f[2]), (f[2], f[0]))]
        self.edges_face = [i for i in range(len(F)) for _ in range(3)]
        self.edges_sorted = [tuple(sorted(e)) for e in self.edges]
        self.count = Counter(self.edges_sorted)
        self.unique = sorted(self.count)
        # adjacency: undirected edges occurring exactly twice, in two different faces
        where = {}
        for k, e in enumerate(self.edges_sorted):
            where.setdefault(e, []).append(k)
        self.adj = []  # (fi, fj, edge, unshared_i, unshared_j)
        for e, ks in where.items():
            if len(ks) != 2:
                continue
            fi, fj = self.edges_face[ks[0]], self.edges_face[ks[1]]
            if fi == fj:
                continue
            fi, fj = sorted((fi, fj))
            self.adj.append((fi, fj, e, self._unshared(F[fi], e), self._unshared(F[fj], e)))
        self.adj.sort()
        self.where = where

    @staticmethod
    def _unshared(face, e):
        pos = [v for v in face if v != e[0] and v != e[1]]
        return pos[0] if len(pos) == 1 else -1

    def watertight(self):
        return len(self.faces) > 0 and all(c == 2 for c in self.count.values())

    def winding(self):
        # every undirected edge that occurs exactly twice is traversed in opposite directions
        for e, ks in self.where.items():
            if len(ks) == 2:
                a, b = self.edges[ks[0]], self.edges[ks[1]]
                if a != (b[1], b[0]):
                    return False
        return True

    def referenced(self):
        r = [False] * self.nv
        for f in self.faces:
            for v in f:
                r[v] = True
        return r

    def euler(self):
        return sum(self.referenced()) - len(self.unique) + len(self.faces)

    def neighbors(self):
        n = [set() for _ in range(self.nv)]
        for a, b in self.unique:
            n[a].add(b)
            n[b].add(a)
        return n

    def incident(self):
        inc = [set() for _ in range(self.nv)]
        for i, f in enumerate(self.faces):
            for v in f:
                inc[v].add(i)
        return inc

    @staticmethod
    def components(n, edges):
        parent = list(range(n))

        def find(x):
            while parent[x] != x:
                parent[x] = parent[parent[x]]
                x = parent[x]
            return x

        for a, b in edges:
            ra, rb = find(a), find(b)
            if ra != rb:
                parent[ra] = rb
        groups = {}
        for i in range(n):
            groups.setdefault(find(i), []).append(i)
        return sorted(groups.values())

    def vertex_components(self):
        return self.components(self.nv, self.unique)

    def face_components(self):
        return self.components(len(self.faces), [(a[0], a[1]) for a in self.adj])

    def closed_manifold(self):
        F = self.faces
        if not self.watertight() or not self.winding():
            return False
        if any(len(set(f)) < 3 for f in F) or len(set(tuple(sorted(f)) for f in F)) < len(F):
            return False
        # every vertex link is one cycle
        for v, inc in enumerate(self.incident()):
            if not inc:
                continue
            link = [tuple(x for x in F[i] if x != v) for i in inc]
            nodes = set(x for e in link for x in e)
            comps = self.components(max(nodes) + 1, link)
            comps = [c for c in comps if set(c) & nodes]
            if len(comps) != 1:
                return False
        return True

    def features(self):
        F = self.faces
        feats = []
        if any(len(set(f)) < 3 for f in F):
            feats.append("repeated index in a face")
        if len(set(tuple(sorted(f)) for f in F)) < len(F):
            feats.append("repeated face")
        if any(c > 2 for c in self.count.values()):
            feats.append("edge in >2 faces")
        if not all(self.referenced()):
            feats.append("unreferenced vertex")
        return feats or ["clean"]


# ---------------------------------------------------------------------------
# the check of one face array
# ---------------------------------------------------------------------------


def _aslist(a):
    return np.asarray(a).tolist()


def check_mesh(t, faces, nv, case, engines=("scipy", "networkx"), do_split=True):
    import trimesh
    from trimesh import graph

    o = Topo(faces, nv)
    feats = o.features()
    cls = "+".join(feats)
    F = np.array(faces, dtype=np.int64).reshape(-1, 3)
    m = trimesh.Trimesh(vertices=POS[:nv].copy(), faces=F.copy(), process=False)

    def bad(name, got, want):
        t.violation(f"{name}: differs from direct counting [{cls}]", case, {"got": got, "want": want, "faces": o.faces, "vertices": nv})

    def rd(name, f):
        try:
            return True, f()
        except Exception as e:
            t.violation(f"{name}: raises {type(e).__name__} [{cls}]", case, {"exc": repr(e)[:300], "faces": o.faces})
            return False, None

    ok, v = rd("edges", lambda: _aslist(m.edges))
    if ok and [tuple(e) for e in v] != o.edges:
        bad("edges", v, o.edges)
    ok, v = rd("edges_face", lambda: _aslist(m.edges_face))
    if ok and v != o.edges_face:
        bad("edges_face", v, o.edges_face)
    ok, v = rd("edges_sorted", lambda: _aslist(m.edges_sorted))
    if ok and [tuple(e) for e in v] != o.edges_sorted:
        bad("edges_sorted", v, o.edges_sorted)
    ok, eu = rd("edges_unique", lambda: [tuple(e) for e in _aslist(m.edges_unique)])
    if ok:
        if sorted(eu) != o.unique or len(eu) != len(o.unique):
            bad("edges_unique", sorted(eu), o.unique)
        else:
            ok2, inv = rd("edges_unique_inverse", lambda: _aslist(m.edges_unique_inverse))
            if ok2 and [eu[i] for i in inv] != o.edges_sorted:
                bad("edges_unique_inverse", inv, "edges_unique[inverse] == edges_sorted")
            ok2, fue = rd("faces_unique_edges", lambda: _aslist(m.faces_unique_edges))
            if ok2 and [[eu[i] for i in row] for row in fue] != [o.edges_sorted[3 * k : 3 * k + 3] for k in range(len(o.faces))]:
                bad("faces_unique_edges", fue, "edges_unique[faces_unique_edges] == per-face sorted edges")
    # adjacency bundle
    ok, adj = rd("face_adjacency", lambda: _aslist(m.face_adjacency))
    if ok:
        ok2, ae = rd("face_adjacency_edges", lambda: _aslist(m.face_adjacency_edges))
        ok3, au = rd("face_adjacency_unshared", lambda: _aslist(m.face_adjacency_unshared))
        want_pairs = sorted((a[0], a[1]) for a in o.adj)
        got_pairs = sorted(tuple(sorted(p)) for p in adj)
        if got_pairs != want_pairs:
            bad("face_adjacency", got_pairs, want_pairs)
        elif ok2 and ok3:
            rec = []
            for p, e, u in zip(adj, ae, au):
                if p[0] > p[1]:
                    p, u = p[::-1], u[::-1]
                rec.append((p[0], p[1], tuple(sorted(e)), u[0], u[1]))
            if sorted(rec) != o.adj:
                if sorted(r[:3] for r in rec) != sorted(a[:3] for a in o.adj):
                    bad("face_adjacency_edges", sorted(rec), o.adj)
                else:
                    bad("face_adjacency_unshared", sorted(rec), o.adj)
    # vertices
    ok, vn = rd("vertex_neighbors", lambda: [set(int(x) for x in n) for n in m.vertex_neighbors])
    if ok:
        want = o.neighbors()
        if len(vn) != nv or any((a - {i}) != (b - {i}) for i, (a, b) in enumerate(zip(vn, want))):
            bad("vertex_neighbors", [sorted(x) for x in vn], [sorted(x) for x in want])
    ok, vf = rd("vertex_faces", lambda: _aslist(m.vertex_faces))
    ok2, vd = rd("vertex_degree", lambda: _aslist(m.vertex_degree))
    if ok and ok2:
        inc = o.incident()
        got_inc = [set(x for x in row if x >= 0) for row in vf]
        if len(vf) != nv or got_inc != inc:
            bad("vertex_faces", vf, [sorted(x) for x in inc])
        elif len(vd) != nv or any(d < len(s) for d, s in zip(vd, inc)) or [sum(1 for x in row if x >= 0) for row in vf] != vd:
            bad("vertex_degree", vd, [len(s) for s in inc])
        elif "repeated index in a face" not in feats and vd != [len(s) for s in inc]:
            bad("vertex_degree", vd, [len(s) for s in inc])
    ok, v = rd("referenced_vertices", lambda: _aslist(m.referenced_vertices))
    if ok and v != o.referenced():
        bad("referenced_vertices", v, o.referenced())
    ok, v = rd("euler_number", lambda: int(m.euler_number))
    if ok and v != o.euler():
        bad("euler_number", v, o.euler())
    ok, v = rd("is_watertight", lambda: bool(m.is_watertight))
    if ok and v != o.watertight():
        bad("is_watertight", v, o.watertight())
    ok, v = rd("is_winding_consistent", lambda: bool(m.is_winding_consistent))
    if ok and len(o.faces) and v != o.winding():
        bad("is_winding_consistent", v, o.winding())
    ok, v = rd("body_count", lambda: int(m.body_count))
    if ok and v != len(o.vertex_components()):
        bad("body_count", v, len(o.vertex_components()))
    # the module-level functions, called the way a user calls them (required arguments only, arrays of the
    # dtype the library itself produces): same answers, and the arguments are left as they were
    if len(o.faces):
        E = np.array(o.edges, dtype=np.int64).reshape(-1, 2)
        E0 = E.copy()
        ok, v = rd("graph.is_watertight(edges)", lambda: tuple(bool(x) for x in graph.is_watertight(E)))
        if ok and v != (o.watertight(), o.winding()):
            bad("graph.is_watertight(edges)", v, (o.watertight(), o.winding()))
        if not (E == E0).all():
            t.violation("graph.is_watertight(edges): modifies the edge array it is given", case, {"before": E0, "after": E})
        Fq = F.copy()
        ok, v = rd("graph.face_adjacency(faces)", lambda: sorted(tuple(sorted(int(i) for i in r)) for r in graph.face_adjacency(faces=Fq)))
        if ok and v != sorted((a[0], a[1]) for a in o.adj):
            bad("graph.face_adjacency(faces)", v, sorted((a[0], a[1]) for a in o.adj))
        if not (Fq == F).all():
            t.violation("graph.face_adjacency(faces): modifies the face array it is given", case, {})
        Fq = F.copy()
        ok, v = rd("geometry.faces_to_edges(faces)", lambda: [tuple(int(i) for i in e) for e in trimesh.geometry.faces_to_edges(Fq)])
        if ok and v != o.edges:
            bad("geometry.faces_to_edges(faces)", v, o.edges)
        if not (Fq == F).all():
            t.violation("geometry.faces_to_edges(faces): modifies the face array it is given", case, {})
    # components through both engines
    fc = o.face_components()
    for eng in engines:
        c = dict(case, engine=eng)
        try:
            got = graph.connected_components(edges=np.array([(a[0], a[1]) for a in o.adj], dtype=np.int64).reshape(-1, 2), nodes=np.arange(len(o.faces)), min_len=1, engine=eng)
            got = sorted(sorted(int(i) for i in g) for g in got)
            if got != fc:
                t.violation(f"connected_components[{eng}]: face components differ from union-find [{cls}]", c, {"got": got, "want": fc})
            got2 = graph.connected_components(edges=np.array(o.unique, dtype=np.int64).reshape(-1, 2), nodes=np.arange(nv), min_len=2, engine=eng)
            got2 = sorted(sorted(int(i) for i in g) for g in got2)
            want2 = [g for g in o.vertex_components() if len(g) >= 2]
            if got2 != want2:
                t.violation(f"connected_components[{eng}](min_len=2): vertex components differ from union-find [{cls}]", c, {"got": got2, "want": want2})
        except Exception as e:
            t.violation(f"connected_components[{eng}]: raises {type(e).__name__} [{cls}]", c, {"exc": repr(e)[:300]})
        if do_split and len(o.faces):
            try:
                parts = m.split(only_watertight=False, repair=False, engine=eng)
                got = sorted(sorted(tuple(sorted(map(tuple, tri.tolist()))) for tri in p.triangles) for p in parts)
                want = sorted(sorted(tuple(sorted(map(tuple, POS[list(o.faces[i])].tolist()))) for i in comp) for comp in fc)
                if got != want:
                    t.violation(f"split[{eng}]: parts are not the face-connected components [{cls}]", c, {"n_got": len(got), "n_want": len(want), "faces": o.faces})
            except Exception as e:
                t.violation(f"split[{eng}]: raises {type(e).__name__} [{cls}]", c, {"exc": repr(e)[:300], "faces": o.faces})
    # the same identities after the mesh was mirrored with every query already answered once (the face
    # columns are re-ordered by the mirror; the aligned arrays must follow).  The dependent array is read first.
    if len(o.faces):
        try:
            m.apply_transform(np.diag([-1.0, 1.0, 1.0, 1.0]))
            o2 = Topo([tuple(int(i) for i in f) for f in np.asarray(m.faces)], nv)
            inv = _aslist(m.edges_unique_inverse)
            fu = _aslist(m.faces_unique_edges)
            eu = [tuple(e) for e in _aslist(m.edges_unique)]
            if [eu[i] for i in inv] != o2.edges_sorted:
                t.violation(f"edges_unique[edges_unique_inverse] != edges_sorted after a mirror transform [{cls}]", case, {"faces": o2.faces})
            elif [sorted(eu[i] for i in row) for row in fu] != [sorted(tuple(sorted(e)) for e in ((f[0], f[1]), (f[1], f[2]), (f[2], f[0]))) for f in o2.faces]:
                t.violation(f"faces_unique_edges does not list the edges of each face after a mirror transform [{cls}]", case, {"faces": o2.faces})
            elif [tuple(e) for e in _aslist(m.edges)] != o2.edges or _aslist(m.edges_face) != o2.edges_face:
                t.violation(f"edges / edges_face are not those of the mirrored faces [{cls}]", case, {"faces": o2.faces})
            elif sorted(tuple(sorted(int(i) for i in r)) for r in _aslist(m.face_adjacency)) != sorted((a[0], a[1]) for a in o2.adj):
                t.violation(f"face_adjacency differs from direct counting after a mirror transform [{cls}]", case, {"faces": o2.faces})
        except Exception as e:
            t.violation(f"queries after a mirror transform raise {type(e).__name__} [{cls}]", case, {"exc": repr(e)[:300], "faces": o.faces})
    # angle defects on closed manifolds
    if o.closed_manifold():
        t.stats["closed_manifold_members"] += 1
        ok, d = rd("vertex_defects", lambda: np.asarray(m.vertex_defects))
        if ok and abs(float(d.sum()) - 2 * np.pi * o.euler()) > 1e-9:
            bad("vertex_defects(sum)", float(d.sum()), 2 * np.pi * o.euler())
    return feats


# ---------------------------------------------------------------------------
# families
# ---------------------------------------------------------------------------


def _w_sequences(task):
    nv, nf, sl, nsl = task
    t = harness.Tally()
    tri = list(itertools.product(range(nv), repeat=3))
    for k, faces in enumerate(itertools.product(tri, repeat=nf)):
        if k % nsl != sl:
            continue
        case = {"family": "sequence", "vertices": nv, "faces": [list(f) for f in faces]}
        t.evaluations += 1
        feats = check_mesh(t, faces, nv, case)
        t.stats["class:" + "+".join(feats)] += 1
        t.nontrivial.add(harness.short_hash(tuple(sorted(map(tuple, faces)))))
        if k % 997 == 0:
            t.sample(case, limit=1)
    return t


ORIENTED = [f for f in itertools.permutations(range(4), 3)]


def _w_sets(task):
    k, sl, nsl = task
    t = harness.Tally()
    for n, combo in enumerate(itertools.combinations(range(len(ORIENTED)), k)):
        if n % nsl != sl:
            continue
        faces = [ORIENTED[i] for i in combo]
        case = {"family": "set", "vertices": 4, "faces": [list(f) for f in faces]}
        t.evaluations += 1
        feats = check_mesh(t, faces, 4, case)
        t.stats["class:" + "+".join(feats)] += 1
        t.nontrivial.add(harness.short_hash(tuple(faces)))
    return t


def closed_surfaces():
    octa = [(0, 2, 4), (2, 1, 4), (1, 3, 4), (3, 0, 4), (2, 0, 5), (1, 2, 5), (3, 1, 5), (0, 3, 5)]
    tet = [(0, 2, 1), (0, 1, 3), (1, 2, 3), (0, 3, 2)]
    out = {"octahedron": (6, octa), "tetrahedron": (4, tet)}
    # two tetrahedra sharing a vertex (7 vertices), sharing an edge (6 vertices)
    t2 = [tuple({0: 0, 1: 4, 2: 5, 3: 6}[v] for v in f) for f in tet]
    out["two tetrahedra sharing a vertex"] = (7, tet + t2)
    t3 = [tuple({0: 0, 1: 1, 2: 4, 3: 5}[v] for v in f) for f in tet]
    out["two tetrahedra sharing an edge"] = (6, tet + t3)
    out["three faces around one edge"] = (5, [(0, 1, 2), (1, 0, 3), (0, 1, 4)])
    out["inverted tetrahedron"] = (4, [f[::-1] for f in tet])
    out["tetrahedron with one face flipped"] = (4, [tet[0][::-1]] + tet[1:])
    out["two disjoint tetrahedra"] = (8, tet + [tuple(v + 4 for v in f) for f in tet])
    return out


def _w_named(_):
    t = harness.Tally()
    for name, (nv, faces) in closed_surfaces().items():
        # every rotation of every face's index order and every face permutation prefix
        for rot in range(3):
            fs = [f[rot:] + f[:rot] for f in faces]
            for perm in (fs, fs[::-1], fs[1:] + fs[:1]):
                case = {"family": "named", "name": name, "vertices": nv, "faces": [list(f) for f in perm]}
                t.evaluations += 1
                check_mesh(t, perm, nv, case)
                t.nontrivial.add(harness.short_hash((name, tuple(perm))))
    return t


def _run(task):
    return task[0](task[1])


def tasks_for(tier):
    NS = 32
    tasks = []
    if tier == "quick":
        seqs = [(4, 1), (4, 2), (5, 1), (5, 2)]
        sets = [4]
    else:
        seqs = [(4, 1), (4, 2), (4, 3), (5, 1), (5, 2)]
        sets = [4, 5, 6]
    for nv, nf in seqs:
        total = (nv**3) ** nf
        nsl = NS * 4 if total > 100000 else (NS if total > 2000 else 1)
        for sl in range(nsl):
            tasks.append((_w_sequences, (nv, nf, sl, nsl)))
    for k in sets:
        nsl = NS * (4 if k > 4 else 1)
        for sl in range(nsl):
            tasks.append((_w_sets, (k, sl, nsl)))
    tasks.append((_w_named, None))
    return tasks


def replay(case):
    t = harness.Tally()
    c = {k: v for k, v in case.items() if k != "engine"}
    check_mesh(t, [tuple(f) for f in case["faces"]], case["vertices"], c)
    return [(k, d) for k, c2, d in t.violations]


def main(run):
    tasks = tasks_for(run.tier)
    r = run.seed % len(tasks)
    order = tasks[r:] + tasks[:r]
    res = harness.pmap(_run, order)
    res = res[len(tasks) - r :] + res[: len(tasks) - r]
    run.merge(res)
    cov = {
        "exhaustive": True,
        "rule": "all face sequences (with repeated indices / faces / unreferenced vertices) of the listed sizes over 4 and 5 vertices, all k-subsets of the 24 oriented non-degenerate faces on 4 vertices, named closed 6-8 vertex surfaces in several face/index orders; every reader compared with direct counting; both graph engines. distinct_nontrivial counts distinct face multisets.",
        "tasks": len(tasks),
    }
    return run.finish(
        cov,
        assumptions=[
            "adjacency = undirected edges that occur exactly twice, in two different faces (documented definition)",
            "vertex_degree / vertex_faces: on faces with a repeated index only the set of incident faces and len(vertex_faces[v]) == vertex_degree[v] are demanded",
            "body_count counts connected groups of vertices including unreferenced ones (docstring)",
            "vertex_neighbors compared ignoring a vertex listed as its own neighbour (degenerate faces)",
        ],
    )
