"""
C06 - row grouping and uniqueness primitives are exact.

Bounded-exhaustive enumeration (engine E2): every small integer array over tiny alphabets
through every grouping primitive with every option combination, compared with oracles on
Python tuples / dicts; magnitude families around every bit-packing threshold; float rows
strictly inside rounding cells.
"""

import itertools

import numpy as np

from mc.core import harness

LEVEL = "exploration"


def _g():
    import trimesh.grouping as g

    return g


# ---------------------------------------------------------------------------
# oracles on python data
# ---------------------------------------------------------------------------


def o_groups(rows):
    """dict row -> list of indices, in first-occurrence order."""
    d = {}
    for i, r in enumerate(rows):
        d.setdefault(r, []).append(i)
    return d


def rows_of(a):
    a = np.asarray(a)
    if a.ndim == 1:
        return [x.item() if hasattr(x, "item") else int(x) for x in a]
    return [tuple(x.item() for x in r) for r in a]


def o_blocks(data, min_len, max_len, wrap, only_nonzero):
    """Runs of equal values (circular if wrap), as a set of frozensets of indices."""
    n = len(data)
    if n == 0:
        return set()
    runs = []
    start = 0
    for i in range(1, n + 1):
        if i == n or data[i] != data[start]:
            runs.append(list(range(start, i)))
            start = i
    if wrap and len(runs) > 1 and data[0] == data[-1]:
        last = runs.pop()
        runs[0] = last + runs[0]
    out = set()
    for r in runs:
        if len(r) < min_len or len(r) > max_len:
            continue
        if only_nonzero and not data[r[0]]:
            continue
        out.add(frozenset(r))
    return out


# ---------------------------------------------------------------------------
# checks of one input through every primitive
# ---------------------------------------------------------------------------


def _call(t, name, case, f):
    try:
        return True, f()
    except Exception as e:
        t.violation(f"{name}: raises {type(e).__name__} on a valid input [{case_class(case)}]", case, {"exc": repr(e)[:300]})
        return False, None


def case_class(case):
    return case.get("class", "small")


def check_rows(t, data, case):
    """Row primitives on an (n, c) integer array."""
    g = _g()
    rows = rows_of(data)
    want = o_groups(rows)
    n = len(rows)
    cls = case_class(case)
    # hashable_rows: injective
    ok, h = _call(t, "hashable_rows", case, lambda: g.hashable_rows(data))
    if ok and n:
        hv = [x.item() if hasattr(x, "item") and x.dtype.kind != "V" else bytes(x) for x in h]
        seen = {}
        for r, x in zip(rows, hv):
            if seen.setdefault(x, r) != r:
                t.violation(f"hashable_rows: different rows get the same hash [{cls}]", case, {"row_a": seen[x], "row_b": r})
                break
        if len(set(hv)) != len(want) and len(set(hv)) > len(want):
            t.violation(f"hashable_rows: equal rows get different hashes [{cls}]", case, {})
    # unique_rows
    for keep in (False, True):
        ok, res = _call(t, "unique_rows", dict(case, keep_order=keep), lambda: g.unique_rows(data, keep_order=keep))
        if not ok:
            continue
        u, inv = res
        u = np.asarray(u)
        inv = np.asarray(inv).reshape(-1)
        c = dict(case, keep_order=keep)
        if n == 0:
            if len(u) or len(inv):
                t.violation("unique_rows: non-empty result for empty input", c, {})
            continue
        first = sorted(v[0] for v in want.values())
        if sorted(u.tolist()) != first:
            t.violation(f"unique_rows: indices are not the first occurrence of each distinct row [{cls}]", c, {"got": u.tolist(), "want": first})
        elif keep and u.tolist() != first:
            t.violation(f"unique_rows(keep_order): not in order of first occurrence [{cls}]", c, {"got": u.tolist(), "want": first})
        elif len(inv) != n or any(rows[u[inv[i]]] != rows[i] for i in range(n)):
            t.violation(f"unique_rows: data[unique][inverse] != data [{cls}]", c, {"unique": u.tolist(), "inverse": inv.tolist()})
    # group_rows
    for rc in (None, 1, 2, 3):
        c = dict(case, require_count=rc)
        ok, res = _call(t, "group_rows", c, lambda: g.group_rows(data, require_count=rc))
        if not ok:
            continue
        if rc is None:
            got = sorted(sorted(int(i) for i in x) for x in res)
            exp = sorted(sorted(v) for v in want.values())
        else:
            arr = np.asarray(res)
            got = sorted(sorted(int(i) for i in np.atleast_1d(x)) for x in (arr.reshape(-1, rc) if arr.size else []))
            exp = sorted(sorted(v) for v in want.values() if len(v) == rc)
        if got != exp:
            t.violation(f"group_rows(require_count={rc}): groups differ from element-wise comparison [{cls}]", c, {"got": got, "want": exp})


def check_1d(t, data, case, full=True, dtype=np.int64):
    g = _g()
    vals = rows_of(data)
    n = len(vals)
    want = o_groups(vals)
    arr = np.asarray(data, dtype=dtype)
    # group
    for mn, mx in itertools.product((None, 1, 2, 3), repeat=2):
        c = dict(case, min_len=mn, max_len=mx)
        ok, res = _call(t, "group", c, lambda: g.group(arr, min_len=mn, max_len=mx))
        if not ok:
            continue
        got = sorted(sorted(int(i) for i in x) for x in res)
        exp = sorted(sorted(v) for v in want.values() if (mn is None or len(v) >= mn) and (mx is None or len(v) <= mx))
        if got != exp:
            t.violation("group(min_len,max_len): groups differ from element-wise comparison", c, {"got": got, "want": exp})
    if n == 0:
        return
    # unique_ordered
    for ri, rv in itertools.product((False, True), repeat=2):
        c = dict(case, return_index=ri, return_inverse=rv)
        ok, res = _call(t, "unique_ordered", c, lambda: g.unique_ordered(arr, return_index=ri, return_inverse=rv))
        if not ok:
            continue
        res = [res] if not (ri or rv) else list(res)
        u = np.asarray(res[0]).tolist()
        exp_u = list(want.keys())
        if u != exp_u:
            t.violation("unique_ordered: values not in first-occurrence order", c, {"got": u, "want": exp_u})
            continue
        k = 1
        if ri:
            idx = np.asarray(res[k]).tolist()
            k += 1
            if idx != [v[0] for v in want.values()]:
                t.violation("unique_ordered: index is not the first occurrence", c, {"got": idx})
        if rv:
            inv = np.asarray(res[k]).tolist()
            if len(inv) != n or any(u[inv[i]] != vals[i] for i in range(n)):
                t.violation("unique_ordered: unique[inverse] != data", c, {"got": inv})
    # unique_bincount (non-negative, and small: it allocates max(values) counters)
    if min(vals) >= 0 and max(vals) < 10**6:
        for ml, rv, rc in itertools.product((0, 1, 5), (False, True), (False, True)):
            c = dict(case, minlength=ml, return_inverse=rv, return_counts=rc)
            ok, res = _call(t, "unique_bincount", c, lambda: g.unique_bincount(arr, minlength=ml, return_inverse=rv, return_counts=rc))
            if not ok:
                continue
            res = [res] if not (rv or rc) else list(res)
            u = np.asarray(res[0]).tolist()
            if u != sorted(want):
                t.violation("unique_bincount: unique values wrong", c, {"got": u, "want": sorted(want)})
                continue
            k = 1
            if rv:
                inv = np.asarray(res[k]).tolist()
                k += 1
                if any(u[inv[i]] != vals[i] for i in range(n)):
                    t.violation("unique_bincount: unique[inverse] != values", c, {"got": inv})
            if rc:
                cnt = np.asarray(res[k]).tolist()
                if cnt != [len(want[x]) for x in sorted(want)]:
                    t.violation("unique_bincount: counts wrong", c, {"got": cnt})
    # merge_runs
    ok, res = _call(t, "merge_runs", case, lambda: g.merge_runs(arr))
    if ok:
        exp = [v for i, v in enumerate(vals) if i == 0 or v != vals[i - 1]]
        if np.asarray(res).tolist() != exp:
            t.violation("merge_runs: consecutive repeats not merged exactly", case, {"got": np.asarray(res).tolist(), "want": exp})
    # blocks
    for mn, mx, wrap, onz in itertools.product((1, 2, 3), (1, 2, 3, np.inf), (False, True), (False, True)):
        if mx < mn:
            continue
        c = dict(case, min_len=mn, max_len=None if mx == np.inf else mx, wrap=wrap, only_nonzero=onz)
        ok, res = _call(t, "blocks", c, lambda: g.blocks(arr, min_len=mn, max_len=mx, wrap=wrap, only_nonzero=onz))
        if not ok:
            continue
        lists = [[int(i) for i in b] for b in res]
        got = set(frozenset(b) for b in lists)
        exp = o_blocks(vals, mn, mx, wrap, onz)
        t.evaluations += 1
        kind = "wrap" if wrap else "plain"
        if any(len(set(b)) != len(b) for b in lists):
            t.violation(f"blocks({kind}): a block lists the same element twice", c, {"got": lists})
        elif len(lists) != len(got):
            t.violation(f"blocks({kind}): the same block is returned twice", c, {"got": lists})
        elif got != exp:
            extra = got - exp
            tag = "returns a run that violates min_len/max_len or is only part of a run" if extra else "misses a qualifying run"
            t.violation(f"blocks({kind}): {tag}", c, {"got": lists, "want": sorted(sorted(x) for x in exp)})
    # group_min: groups labels = data, values = positions reversed
    labels = arr
    values = np.arange(n)[::-1].copy() * 3 % 7
    ok, res = _call(t, "group_min", case, lambda: g.group_min(labels, values))
    if ok:
        exp = [min(int(values[i]) for i in want[k]) for k in sorted(want)]
        if np.asarray(res).tolist() != exp:
            t.violation("group_min: per-group minimum wrong", case, {"got": np.asarray(res).tolist(), "want": exp})


def check_value_in_row(t, data, case):
    g = _g()
    ok, res = _call(t, "unique_value_in_row", case, lambda: g.unique_value_in_row(data))
    if not ok:
        return
    res = np.asarray(res)
    for r, row in enumerate(rows_of(data)):
        once = [v for v in set(row) if row.count(v) == 1]
        exp = [False] * len(row)
        if once:
            exp[row.index(max(once))] = True
        if res[r].tolist() != exp:
            t.violation("unique_value_in_row: mask is not the (last) value occurring once", case, {"row": row, "got": res[r].tolist(), "want": exp})
            return


def check_boolean_rows(t, a, b, case):
    g = _g()
    sa, sb = set(rows_of(a)), set(rows_of(b))
    for name, op, exp in (("intersect", np.intersect1d, sa & sb), ("setdiff", np.setdiff1d, sa - sb)):
        c = dict(case, operation=name)
        ok, res = _call(t, "boolean_rows", c, lambda: g.boolean_rows(a, b, operation=op))
        if ok:
            got = rows_of(np.asarray(res))
            if len(got) != len(set(got)) or set(got) != exp:
                t.violation(f"boolean_rows({name}): rows differ from set operation on tuples", c, {"got": got, "want": sorted(exp)})


# ---------------------------------------------------------------------------
# workers
# ---------------------------------------------------------------------------


def _w_small_rows(task):
    """All (n, c) arrays over an alphabet, sliced."""
    n, c, alphabet, sl, nsl = task
    t = harness.Tally()
    for k, flat in enumerate(itertools.product(alphabet, repeat=n * c)):
        if k % nsl != sl:
            continue
        data = np.array(flat, dtype=np.int64).reshape(n, c)
        case = {"family": "rows", "data": data.tolist()}
        t.evaluations += 1
        if len(set(rows_of(data))) < n:
            t.nontrivial_count += 1
        check_rows(t, data, case)
        check_value_in_row(t, data, case)
        if k % 97 == 0:
            t.sample(case, limit=1)
    return t


def _w_small_1d(task):
    n, alphabet, sl, nsl = task
    t = harness.Tally()
    for k, flat in enumerate(itertools.product(alphabet, repeat=n)):
        if k % nsl != sl:
            continue
        data = np.array(flat, dtype=np.int64)
        case = {"family": "1d", "data": data.tolist()}
        t.evaluations += 1
        if len(set(flat)) < n:
            t.nontrivial_count += 1
        check_1d(t, data, case)
    return t


def _w_bool_rows(task):
    alphabet, na, nb, c, sl, nsl = task
    t = harness.Tally()
    rows = list(itertools.product(alphabet, repeat=c))
    k = 0
    for ra in itertools.product(rows, repeat=na):
        for rb in itertools.product(rows, repeat=nb):
            k += 1
            if k % nsl != sl:
                continue
            a = np.array(ra, dtype=np.int64).reshape(na, c)
            b = np.array(rb, dtype=np.int64).reshape(nb, c)
            t.evaluations += 1
            if set(ra) & set(rb):
                t.nontrivial_count += 1
            check_boolean_rows(t, a, b, {"family": "boolean_rows", "a": a.tolist(), "b": b.tolist()})
    return t


def magnitude_alphabet(c):
    if c == 1:
        hi = 2**63 - 1
        return sorted({0, 1, -1, hi, hi - 1, -hi, -hi - 1, 2**31, -(2**31), 2**32})
    T = 2 ** (64 // c - 1)
    vals = {0, 1, -1}
    for d in (-2, -1, 0, 1):
        vals |= {T + d, -(T + d)}
    return sorted(vals)


def _w_magnitude(task):
    """One array holding every row over the alphabet restricted to [lo, hi] that contains both."""
    c, lo, hi = task
    t = harness.Tally()
    alpha = [v for v in magnitude_alphabet(c) if lo <= v <= hi]
    rows = [r for r in itertools.product(alpha, repeat=c)]
    # make sure lo and hi are attained (they are: all rows) and add duplicates of a few rows
    rows = rows + rows[:: max(1, len(rows) // 7)]
    data = np.array(rows, dtype=np.int64)
    T = 2 ** (64 // c - 1) if c > 1 else 2**63
    side = "below" if max(abs(lo), abs(hi)) < T - 1 else ("at" if max(abs(lo), abs(hi)) <= T else "above")
    case = {"family": "magnitude", "class": f"{c} columns, extreme value {side} the packing limit", "columns": c, "lo": lo, "hi": hi}
    t.evaluations += 1
    t.nontrivial_count += 1
    check_rows_bulk(t, data, case)
    return t


def check_rows_bulk(t, data, case):
    """Same oracle as check_rows but vector friendly for big arrays."""
    g = _g()
    rows = rows_of(data)
    want = o_groups(rows)
    cls = case_class(case)
    ok, h = _call(t, "hashable_rows", case, lambda: g.hashable_rows(data))
    if ok:
        hv = [bytes(x) if h.dtype.kind == "V" else x.item() for x in h]
        seen = {}
        for r, x in zip(rows, hv):
            if seen.setdefault(x, r) != r:
                t.violation(f"hashable_rows: different rows get the same hash [{cls}]", dict(case, row_a=list(seen[x]), row_b=list(r)), {"row_a": seen[x], "row_b": r})
                break
        else:
            if len(set(hv)) != len(want):
                t.violation(f"hashable_rows: equal rows get different hashes [{cls}]", case, {})
    ok, res = _call(t, "unique_rows", case, lambda: g.unique_rows(data))
    if ok:
        u, inv = res
        first = sorted(v[0] for v in want.values())
        if sorted(np.asarray(u).tolist()) != first:
            t.violation(f"unique_rows: indices are not the first occurrence of each distinct row [{cls}]", case, {"n_got": len(u), "n_want": len(first)})
        elif not (data[np.asarray(u)][np.asarray(inv).reshape(-1)] == data).all():
            t.violation(f"unique_rows: data[unique][inverse] != data [{cls}]", case, {})
    ok, res = _call(t, "group_rows", case, lambda: g.group_rows(data, require_count=2))
    if ok:
        got = sorted(sorted(int(i) for i in x) for x in np.asarray(res).reshape(-1, 2))
        exp = sorted(sorted(v) for v in want.values() if len(v) == 2)
        if got != exp:
            t.violation(f"group_rows(require_count=2): groups differ from element-wise comparison [{cls}]", case, {"n_got": len(got), "n_want": len(exp)})


def _w_pairs_magnitude(task):
    """All 2-row arrays over the magnitude alphabet (c <= 3): directly, no row-wise argument."""
    c, sl, nsl = task
    t = harness.Tally()
    g = _g()
    alpha = magnitude_alphabet(c)
    rows = list(itertools.product(alpha, repeat=c))
    k = 0
    for i, ra in enumerate(rows):
        if i % nsl != sl:
            continue
        for rb in rows:
            data = np.array([ra, rb], dtype=np.int64)
            t.evaluations += 1
            eq = ra == rb
            try:
                u, inv = g.unique_rows(data)
                got_eq = len(u) == 1
            except Exception as e:
                t.violation(f"unique_rows: raises {type(e).__name__} on a valid input [{c} column magnitude pair]", {"family": "pair", "data": data.tolist()}, {"exc": repr(e)[:200]})
                continue
            if got_eq != eq:
                t.nontrivial_count += 0
                mx = max(abs(v) for v in ra + rb)
                T = 2 ** (64 // c - 1) if c > 1 else 2**63
                side = "below" if mx < T - 1 else ("at" if mx <= T else "above")
                what = "different rows merged" if got_eq else "equal rows separated"
                t.violation(f"unique_rows: {what} [{c} columns, extreme value {side} the packing limit]", {"family": "pair", "data": data.tolist()}, {"unique": np.asarray(u).tolist()})
            if not eq:
                t.nontrivial_count += 1
    return t


def _w_float(task):
    digits, sl = task
    t = harness.Tally()
    g = _g()
    step = 10.0**-digits
    # values k*step + j with |j| <= 0.3 step: strictly inside a rounding cell
    ks = [-2, -1, 0, 1, 2, 7]
    js = [-0.3, 0.0, 0.3]
    vals = [(k, k * step + j * step) for k in ks for j in js]
    # 1-D: unique_float / rows of 2 columns
    cells = [k for k, _ in vals]
    arr = np.array([v for _, v in vals])
    t.evaluations += 1
    t.nontrivial_count += 1
    case = {"family": "float", "digits": digits}
    try:
        u, idx, inv = g.unique_float(arr, return_index=True, return_inverse=True, digits=digits)
        got_groups = {}
        for i, j in enumerate(np.asarray(inv).tolist()):
            got_groups.setdefault(j, []).append(i)
        got = sorted(sorted(v) for v in got_groups.values())
        exp = sorted(sorted(v) for v in o_groups(cells).values())
        if got != exp:
            t.violation("unique_float: grouping differs from equality after rounding to digits", case, {"got": got, "want": exp})
    except Exception as e:
        t.violation(f"unique_float: raises {type(e).__name__}", case, {"exc": repr(e)})
    # rows: all pairs of values as 2-column rows
    rows_cells = [(a, b) for a in cells[sl::3] for b in cells]
    data = np.array([(arr[i], arr[j]) for i in range(sl, len(arr), 3) for j in range(len(arr))])
    want = o_groups(rows_cells)
    for fn in ("unique_rows", "group_rows"):
        t.evaluations += 1
        try:
            if fn == "unique_rows":
                u, inv = g.unique_rows(data, digits=digits)
                gg = {}
                for i, j in enumerate(np.asarray(inv).reshape(-1).tolist()):
                    gg.setdefault(j, []).append(i)
                got = sorted(sorted(v) for v in gg.values())
            else:
                got = sorted(sorted(int(i) for i in x) for x in g.group_rows(data, digits=digits))
            exp = sorted(sorted(v) for v in want.values())
            if got != exp:
                t.violation(f"{fn}(digits): float rows not grouped by equality after rounding", dict(case, fn=fn, slice=sl), {"n_got": len(got), "n_want": len(exp)})
        except Exception as e:
            t.violation(f"{fn}(digits): raises {type(e).__name__}", dict(case, fn=fn, slice=sl), {"exc": repr(e)})
    return t


def _w_1d_extremes(task):
    """Every sequence of length <= 3 over the extreme values of a signed integer dtype: differences between
    neighbours reach and exceed half the range of the dtype (where subtraction wraps around)."""
    dtname = task
    t = harness.Tally()
    dt = np.dtype(dtname)
    ii = np.iinfo(dt)
    alpha = [ii.min, ii.min // 2, -1, 0, 1, ii.max // 2 + 1, ii.max]
    for n in (1, 2, 3):
        for seq in itertools.product(alpha, repeat=n):
            case = {"family": "1d_extremes", "class": f"{dtname} extremes, length {n}", "dtype": dtname, "data": [int(x) for x in seq]}
            t.evaluations += 1
            if len(set(seq)) < len(seq) or n > 1:
                t.nontrivial_count += 1
            check_1d(t, np.array(seq, dtype=object), case, dtype=dt)
    t.sample({"family": "1d_extremes", "dtype": dtname, "data": [int(alpha[0]), 0]}, limit=1)
    return t


def _w_edge(_):
    """Empty and single-row inputs."""
    t = harness.Tally()
    for c in (1, 2, 3, 4, 5):
        for n in (0, 1):
            data = np.zeros((n, c), dtype=np.int64) + 3
            case = {"family": "edge", "class": f"{n} rows x {c} columns", "shape": [n, c]}
            t.evaluations += 1
            t.nontrivial_count += 1
            check_rows(t, data, case)
    check_1d(t, np.array([], dtype=np.int64), {"family": "edge", "class": "empty 1d", "shape": [0]})
    return t


# ---------------------------------------------------------------------------


def tasks_for(tier):
    tasks = []
    NS = 16
    if tier == "quick":
        row_shapes = [(1, 1), (2, 1), (3, 1), (1, 2), (2, 2), (3, 2), (1, 3), (2, 3), (3, 3)]
        max1d = 6
        alpha1d = (0, 1, 2)
    else:
        row_shapes = [(1, 1), (2, 1), (3, 1), (4, 1), (1, 2), (2, 2), (3, 2), (4, 2), (1, 3), (2, 3), (3, 3), (1, 4), (2, 4), (3, 4)]
        max1d = 7
        alpha1d = (0, 1, 2)
    for n, c in row_shapes:
        alphabet = (0, 1, 2) if n * c <= 9 else (0, 1)
        total = len(alphabet) ** (n * c)
        nsl = NS if total > 2000 else 1
        for sl in range(nsl):
            tasks.append((_w_small_rows, (n, c, alphabet, sl, nsl)))
    # signed small alphabet rows
    for n, c in [(2, 2), (3, 2), (2, 3)]:
        tasks.append((_w_small_rows, (n, c, (-1, 0, 5), 0, 1)))
    for n in range(1, max1d + 1):
        nsl = NS if 3**n > 200 else 1
        for sl in range(nsl):
            tasks.append((_w_small_1d, (n, alpha1d, sl, nsl)))
    for n in range(1, 5):
        tasks.append((_w_small_1d, (n, (-1, 0, 1, 5), 0, 1)))
    for sl in range(NS):
        tasks.append((_w_bool_rows, ((0, 1, 2) if tier != "quick" else (0, 1), 2, 2, 2, sl, NS)))
    tasks.append((_w_bool_rows, ((0, 1), 1, 3, 1, 0, 1)))
    # magnitudes
    for c in (1, 2, 3, 4, 5):
        alpha = magnitude_alphabet(c)
        if c == 5 or (c == 4 and tier == "quick"):
            pairs = [(alpha[0], alpha[-1]), (alpha[2], alpha[-3]), (alpha[1], alpha[-2]), (0, alpha[-3]), (alpha[2], 0)] if c == 4 else [(alpha[0], alpha[-1])]
        else:
            pairs = [(lo, hi) for lo in alpha for hi in alpha if lo < hi]
        for lo, hi in pairs:
            tasks.append((_w_magnitude, (c, lo, hi)))
    for c in (1, 2, 3) if tier != "quick" else (1, 2):
        for sl in range(NS):
            tasks.append((_w_pairs_magnitude, (c, sl, NS)))
    for d in (0, 2, 4, 8):
        for sl in range(3):
            tasks.append((_w_float, (d, sl)))
    tasks.append((_w_edge, None))
    for dtname in ("int8", "int16", "int32", "int64"):
        tasks.append((_w_1d_extremes, dtname))
    return tasks


def _run_task(task):
    f, arg = task
    return f(arg)


def replay(case):
    t = harness.Tally()
    fam = case.get("family")
    if fam == "rows":
        d = np.array(case["data"], dtype=np.int64)
        check_rows(t, d, {"family": "rows", "data": case["data"]})
        check_value_in_row(t, d, {"family": "rows", "data": case["data"]})
    elif fam == "1d":
        check_1d(t, np.array(case["data"], dtype=np.int64), {"family": "1d", "data": case["data"]})
    elif fam == "1d_extremes":
        check_1d(t, np.array(case["data"], dtype=object), {k: case[k] for k in ("family", "class", "dtype", "data")}, dtype=np.dtype(case["dtype"]))
    elif fam == "boolean_rows":
        check_boolean_rows(t, np.array(case["a"], dtype=np.int64), np.array(case["b"], dtype=np.int64), {"family": "boolean_rows", "a": case["a"], "b": case["b"]})
    elif fam == "magnitude":
        t.merge(_w_magnitude((case["columns"], case["lo"], case["hi"])))
    elif fam == "pair":
        d = np.array(case["data"], dtype=np.int64)
        c = d.shape[1]
        g = _g()
        try:
            u, inv = g.unique_rows(d)
            eq = tuple(d[0]) == tuple(d[1])
            if (len(u) == 1) != eq:
                mx = int(np.abs(d.astype(object)).max())
                T = 2 ** (64 // c - 1) if c > 1 else 2**63
                side = "below" if mx < T - 1 else ("at" if mx <= T else "above")
                what = "different rows merged" if len(u) == 1 else "equal rows separated"
                t.violation(f"unique_rows: {what} [{c} columns, extreme value {side} the packing limit]", case, {})
        except Exception as e:
            t.violation(f"unique_rows: raises {type(e).__name__} on a valid input [{c} column magnitude pair]", case, {"exc": repr(e)})
    elif fam == "float":
        for sl in range(3):
            t.merge(_w_float((case["digits"], sl)))
    elif fam == "edge":
        t.merge(_w_edge(None))
    return [(k, d) for k, c, d in t.violations]


def main(run):
    tasks = tasks_for(run.tier)
    run.log(f"{len(tasks)} tasks")
    # rotate task order by seed (never changes which cases run)
    r = run.seed % len(tasks)
    order = tasks[r:] + tasks[:r]
    res = harness.pmap(_run_task, order)
    # merge in canonical (unrotated) order so the first counterexample per key is stable
    res = res[len(tasks) - r :] + res[: len(tasks) - r]
    run.merge(res)
    cov = {
        "exhaustive": True,
        "rule": "every integer array of the listed small shapes over {0,1,2} (and {-1,0,5}, {-1,0,1,5}) through unique_rows/group_rows/hashable_rows/group/unique_ordered/unique_bincount/merge_runs/blocks/group_min/unique_value_in_row/boolean_rows with every option combination; for each column count 1..5 one array per (lo,hi) pair of the threshold alphabet containing every row over it; every 2-row magnitude array for <=3 columns; float rows strictly inside rounding cells for digits 0,2,4,8. Non-trivial = input contains at least one repeated row/value (or a distinct pair for the magnitude pairs).",
        "tasks": len(tasks),
    }
    return run.finish(cov, assumptions=["oracle: Python tuples in dicts / sets", "blocks are compared as sets of index sets; a block must not list an element twice"])
