"""
C16 - convex hulls and bounding volumes contain what they bound.

Engine E2: every k-subset of the 3x3x3 lattice (k = 4, 5; 6 in thorough) - dense in
coplanar / cocircular / cospherical ties -, a slice of them scaled by 1e-3 / 1e3 and
translated by 1e6, clustered sets, every k-subset of the 4x4 lattice in 2D, and lattice
meshes.  Oracles in exact integer / Fraction arithmetic: rank, inner side of every hull
facet, min/max, minimal enclosing sphere by brute force over all support sets.
"""

import itertools
from fractions import Fraction as Fr

import numpy as np

from mc.core import harness
from mc.props.c05_topology import Topo

LEVEL = "exploration"

LATTICE3 = list(itertools.product(range(3), repeat=3))
LATTICE2 = list(itertools.product(range(4), repeat=2))
VARIANTS = {"unit": (1.0, 0.0, "lattice"), "small": (1e-3, 0.0, "lattice x 1e-3"), "tiny": (1e-6, 0.0, "lattice x 1e-6"), "large": (1e3, 0.0, "lattice x 1e3"), "far": (1.0, 1e6, "lattice + 1e6"), "offset": (1.0, np.array([7.0, -3.0, 11.0]), "lattice + (7,-3,11)")}


def det3(a, b, c):
    return a[0] * (b[1] * c[2] - b[2] * c[1]) - a[1] * (b[0] * c[2] - b[2] * c[0]) + a[2] * (b[0] * c[1] - b[1] * c[0])


def sub(a, b):
    return tuple(x - y for x, y in zip(a, b))


def rank3(pts):
    """Affine rank of integer points (0..3)."""
    p0 = pts[0]
    vs = [sub(p, p0) for p in pts[1:]]
    vs = [v for v in vs if any(v)]
    if not vs:
        return 0
    for a, b in itertools.combinations(vs, 2):
        cr = (a[1] * b[2] - a[2] * b[1], a[2] * b[0] - a[0] * b[2], a[0] * b[1] - a[1] * b[0])
        if any(cr):
            for c in vs:
                if det3(a, b, c) != 0:
                    return 3
            return 2
    return 1


# --- exact minimal enclosing sphere --------------------------------------------------


def circum(points):
    """Exact centre and squared radius of the smallest sphere through 2, 3 or 4 integer points; None if degenerate."""
    P = [tuple(Fr(x) for x in p) for p in points]
    if len(P) == 2:
        c = tuple((a + b) / 2 for a, b in zip(*P))
    else:
        # centre = p0 + sum_i l_i (p_i - p0) with  (p_i-p0).(c-p0) = |p_i-p0|^2/2
        p0 = P[0]
        E = [tuple(a - b for a, b in zip(p, p0)) for p in P[1:]]
        k = len(E)
        G = [[sum(x * y for x, y in zip(E[i], E[j])) for j in range(k)] for i in range(k)]
        rhs = [G[i][i] / 2 for i in range(k)]
        # solve G l = rhs (Gauss, Fractions)
        M = [row[:] + [rhs[i]] for i, row in enumerate(G)]
        for col in range(k):
            piv = next((r for r in range(col, k) if M[r][col] != 0), None)
            if piv is None:
                return None
            M[col], M[piv] = M[piv], M[col]
            for r in range(k):
                if r != col and M[r][col] != 0:
                    f = M[r][col] / M[col][col]
                    M[r] = [a - f * b for a, b in zip(M[r], M[col])]
        lam = [M[i][k] / M[i][i] for i in range(k)]
        c = tuple(p0[d] + sum(lam[i] * E[i][d] for i in range(k)) for d in range(3))
    r2 = sum((a - b) ** 2 for a, b in zip(c, P[0]))
    return c, r2


def min_sphere(points):
    """Brute force: smallest sphere among all 2,3,4 support sets that contains every point.  Returns (r2, support size)."""
    best = None
    for k in (2, 3, 4):
        for sup in itertools.combinations(points, k):
            cr = circum(sup)
            if cr is None:
                continue
            c, r2 = cr
            if all(sum((Fr(x) - y) ** 2 for x, y in zip(p, c)) <= r2 for p in points):
                if best is None or r2 < best[0]:
                    best = (r2, k, c)
    return best


# --- checks ----------------------------------------------------------------------------


def check_points(t, pts_int, scale, shift, label, case, do_sphere=True):
    import trimesh

    P = np.array(pts_int, dtype=float) * scale + shift
    size = float(np.ptp(P, axis=0).max())
    mag = float(np.abs(P).max())
    r = rank3(pts_int)
    cls = f"{label}"
    t.evaluations += 1
    if r == 3:
        t.nontrivial_count += 1
    # bounds
    try:
        pc = trimesh.PointCloud(P.copy())
        b = np.asarray(pc.bounds)
        if not np.array_equal(b, np.array([P.min(axis=0), P.max(axis=0)])):
            t.violation(f"PointCloud.bounds is not the exact min / max [{cls}]", case, {"got": b})
    except Exception as e:
        t.violation(f"PointCloud.bounds raises {type(e).__name__} [{cls}]", case, {"exc": repr(e)[:200]})
    # hull
    if r == 3:
        try:
            h = trimesh.convex.convex_hull(P.copy())
            hv = np.asarray(h.vertices)
            # every hull vertex is an input point (exact)
            key = {tuple(p): i for i, p in enumerate(P.tolist())}
            idx = [key.get(tuple(v)) for v in hv.tolist()]
            if any(i is None for i in idx):
                t.violation(f"convex_hull has a vertex that is not an input point [{cls}]", case, {"vertices": hv})
            else:
                faces = [[idx[i] for i in f] for f in np.asarray(h.faces).tolist()]
                topo = Topo(faces, len(P))
                if not topo.watertight() or not topo.winding():
                    t.violation(f"convex_hull is not watertight / consistently wound [{cls}]", case, {"faces": faces})
                else:
                    vol6 = 0
                    bad_side = False
                    for f in faces:
                        a, b_, c = (pts_int[i] for i in f)
                        vol6 += det3(a, b_, c)
                        for p in pts_int:
                            if det3(sub(b_, a), sub(c, a), sub(p, a)) > 0:
                                bad_side = True
                    if vol6 <= 0:
                        t.violation(f"convex_hull is wound inwards (non-positive volume) [{cls}]", case, {"six_volume": vol6})
                    elif bad_side:
                        t.violation(f"convex_hull does not contain every input point (a point is outside a facet) [{cls}]", case, {"faces": faces})
                    elif not h.is_convex:
                        t.violation(f"is_convex is False for a convex hull [{cls}]", case, {})
        except Exception as e:
            t.violation(f"convex_hull raises {type(e).__name__} on a set spanning 3 dimensions [{cls}]", case, {"exc": repr(e)[:200]})
    # oriented bounds
    if r >= 2:
        try:
            T, ext = trimesh.bounds.oriented_bounds(P.copy())
            T, ext = np.asarray(T), np.asarray(ext)
            R = T[:3, :3]
            if np.abs(R @ R.T - np.eye(3)).max() > 1e-9 or abs(np.linalg.det(R) - 1) > 1e-9 or not np.allclose(T[3], [0, 0, 0, 1]):
                t.violation(f"oriented_bounds transform is not rigid [{cls}; rank {r}]", case, {"got": T})
            else:
                Q = P @ R.T + T[:3, 3]
                tol = 1e-8 * max(size, 1e-300) + 1e-9 * mag
                if (np.abs(Q) > ext / 2 + tol).any():
                    t.violation(f"oriented_bounds box does not contain every point [{cls}; rank {r}]", case, {"overshoot": float((np.abs(Q) - ext / 2).max())})
                elif np.abs(np.ptp(Q, axis=0) - ext).max() > 10 * tol or np.abs(Q.max(axis=0) + Q.min(axis=0)).max() > 10 * tol:
                    t.violation(f"oriented_bounds extents are not the (centred) extents of the transformed points [{cls}; rank {r}]", case, {"extents": ext, "ptp": np.ptp(Q, axis=0)})
        except Exception as e:
            t.violation(f"oriented_bounds raises {type(e).__name__} [{cls}; rank {r}]", case, {"exc": repr(e)[:200]})
    # minimal sphere
    if r == 3 and do_sphere:
        try:
            c, rad = trimesh.nsphere.minimum_nsphere(P.copy())
            d = np.linalg.norm(P - np.asarray(c), axis=1)
            if d.max() > rad * (1 + 1e-9) + 1e-12 * mag:
                t.violation(f"minimum_nsphere does not contain every point [{cls}]", case, {"radius": float(rad), "max_distance": float(d.max())})
            else:
                r2, k, cc = min_sphere(pts_int)
                want = float(r2) ** 0.5 * scale
                # general position in the sense of the statement: the minimal sphere is determined by its support
                if abs(rad - want) > 1e-7 * want:
                    t.violation(f"minimum_nsphere is not the minimal sphere [minimal sphere supported by {k} points]", case, {"got": float(rad), "want": want})
        except Exception as e:
            t.violation(f"minimum_nsphere raises {type(e).__name__} [{cls}]", case, {"exc": repr(e)[:200]})


def _w_subsets(task):
    k, sl, nsl, variant = task
    t = harness.Tally()
    scale, shift, label = VARIANTS[variant]
    for n, combo in enumerate(itertools.combinations(LATTICE3, k)):
        if n % nsl != sl:
            continue
        case = {"family": "subset", "points": [list(p) for p in combo], "variant": variant}
        check_points(t, list(combo), scale, shift, label, case)
        if n % 4999 == 0:
            t.sample(case, limit=1)
    return t


def _w_2d(task):
    k, sl, nsl = task
    import trimesh

    t = harness.Tally()
    for n, combo in enumerate(itertools.combinations(LATTICE2, k)):
        if n % nsl != sl:
            continue
        P = np.array(combo, dtype=float)
        case = {"family": "2d", "points": [list(p) for p in combo]}
        t.evaluations += 1
        # collinear sets have no 2D hull
        a = np.array(combo[0])
        coll = all((combo[1][0] - a[0]) * (p[1] - a[1]) == (combo[1][1] - a[1]) * (p[0] - a[0]) for p in combo[2:])
        if coll:
            continue
        t.nontrivial_count += 1
        try:
            T, rect = trimesh.bounds.oriented_bounds_2D(P.copy())
            T, rect = np.asarray(T), np.asarray(rect)
            R = T[:2, :2]
            Q = P @ R.T + T[:2, 2]
            if np.abs(R @ R.T - np.eye(2)).max() > 1e-9 or abs(np.linalg.det(R) - 1) > 1e-9:
                t.violation("oriented_bounds_2D transform is not rigid", case, {"got": T})
            elif (np.abs(Q) > rect / 2 + 1e-8).any() or np.abs(np.ptp(Q, axis=0) - rect).max() > 1e-7:
                t.violation("oriented_bounds_2D rectangle does not tightly contain the transformed points", case, {"rect": rect, "ptp": np.ptp(Q, axis=0)})
            else:
                # minimal over the edge directions of the hull: brute force over all point pairs
                best = np.inf
                for i, j in itertools.combinations(range(len(P)), 2):
                    d = P[j] - P[i]
                    d = d / np.linalg.norm(d)
                    n2 = np.array([-d[1], d[0]])
                    best = min(best, np.ptp(P @ d) * np.ptp(P @ n2))
                if rect[0] * rect[1] > best * (1 + 1e-7) + 1e-9:
                    t.violation("oriented_bounds_2D is not the minimum-area rectangle", case, {"got": float(rect[0] * rect[1]), "want": float(best)})
        except Exception as e:
            t.violation(f"oriented_bounds_2D raises {type(e).__name__}", case, {"exc": repr(e)[:200]})
    return t


def _w_meshes(_):
    import trimesh

    from mc.props.c11_section import mesh_family

    t = harness.Tally()
    for name, (V, F) in mesh_family().items():
        V = np.asarray(V, dtype=float)
        for vname, (sc, sh) in {"unit": (1.0, 0.0), "x1e-3": (1e-3, 0.0), "x1e3 far": (1e3, 1e6)}.items():
            P = V * sc + sh
            m = trimesh.Trimesh(P.copy(), np.asarray(F).copy(), process=False)
            case = {"family": "mesh", "mesh": name, "variant": vname}
            size = float(np.ptp(P, axis=0).max())
            tol = 1e-7 * size + 1e-9 * float(np.abs(P).max())
            t.evaluations += 1
            t.nontrivial_count += 1
            try:
                bb = m.bounding_box
                if not np.allclose(bb.bounds, [P.min(axis=0), P.max(axis=0)], rtol=0, atol=tol):
                    t.violation("bounding_box is not the axis aligned bounds", case, {})
                obb = m.bounding_box_oriented
                T = np.asarray(obb.primitive.transform)
                ext = np.asarray(obb.primitive.extents)
                Q = (P - T[:3, 3]) @ T[:3, :3]
                if (np.abs(Q) > ext / 2 + tol).any():
                    t.violation("bounding_box_oriented does not contain every vertex", case, {"overshoot": float((np.abs(Q) - ext / 2).max())})
                if obb.volume > bb.volume * (1 + 1e-6):
                    t.violation("bounding_box_oriented is larger than the axis aligned box", case, {"obb": float(obb.volume), "aabb": float(bb.volume)})
                sp = m.bounding_sphere
                c = np.asarray(sp.primitive.center)
                rad = float(sp.primitive.radius)
                if np.linalg.norm(P - c, axis=1).max() > rad * (1 + 1e-7) + tol:
                    t.violation("bounding_sphere does not contain every vertex", case, {})
                cy = m.bounding_cylinder
                Tc = np.asarray(cy.primitive.transform)
                Qc = (P - Tc[:3, 3]) @ Tc[:3, :3]
                rr = np.linalg.norm(Qc[:, :2], axis=1).max()
                hh = np.abs(Qc[:, 2]).max()
                if rr > float(cy.primitive.radius) * (1 + 1e-4) + tol or hh > float(cy.primitive.height) / 2 * (1 + 1e-4) + tol:
                    t.violation("bounding_cylinder does not contain every vertex", case, {"radial": float(rr), "radius": float(cy.primitive.radius), "axial": float(hh), "half_height": float(cy.primitive.height) / 2})
                bp = m.bounding_primitive
                vols = [float(x.volume) for x in (obb, sp, cy)]
                if float(bp.volume) > min(vols) * (1 + 1e-9):
                    t.violation("bounding_primitive is not the smallest of box, sphere and cylinder", case, {"got": float(bp.volume), "candidates": vols})
                m2 = m.copy()
                To = m2.apply_obb()
                Q2 = np.asarray(m2.vertices)
                if np.abs(Q2.max(axis=0) + Q2.min(axis=0)).max() > 10 * tol or not np.allclose(np.sort(np.ptp(Q2, axis=0)), np.sort(ext), rtol=1e-6, atol=10 * tol):
                    t.violation("apply_obb does not move the mesh into a box of the reported extents centred at the origin", case, {"ptp": np.ptp(Q2, axis=0), "extents": ext})
                hull = m.convex_hull
                hv = np.asarray(hull.vertices)
                from scipy.spatial import cKDTree

                if cKDTree(P).query(hv)[0].max() > tol:
                    t.violation("mesh convex_hull has a vertex that is not a mesh vertex", case, {})
                n = np.asarray(hull.face_normals)
                o = np.asarray(hull.triangles)[:, 0]
                if np.einsum("pfk,fk->pf", P[:, None, :] - o[None, :, :], n).max() > tol * 10 or not hull.is_watertight or hull.volume <= 0:
                    t.violation("mesh convex_hull does not contain every vertex / is not a valid outward solid", case, {})
            except Exception as e:
                t.violation(f"bounding volume raises {type(e).__name__}", case, {"exc": repr(e)[:300]})
    return t


def _w_history(_):
    """read one bounding volume -> move the geometry -> every bounding volume must contain the moved vertices
    (bounding volumes of point clouds and meshes are cached values)."""
    import trimesh

    t = harness.Tally()
    V = np.array([[0, 0, 0], [2, 0, 0], [0, 3, 0], [0, 0, 1], [2, 3, 1], [1, 1, 2]], dtype=float)
    F = trimesh.convex.convex_hull(V).faces
    c, s_ = 0.6, 0.8
    R = np.eye(4)
    R[:3, :3] = [[c, -s_, 0], [s_, c, 0], [0, 0, 1]]
    R[:3, 3] = [1, -2, 3]
    moves = {
        "apply_translation": lambda g: g.apply_translation([50.0, -20.0, 7.0]),
        "apply_transform(rigid)": lambda g: g.apply_transform(R.copy()),
        "apply_scale(3)": lambda g: g.apply_scale(3.0),
        "apply_obb": lambda g: g.apply_obb(),
    }
    readers = ["convex_hull", "bounding_box_oriented", "bounding_sphere", "bounding_cylinder", "bounding_box", "bounds", "ALL"]
    for kind in ("PointCloud", "Trimesh"):
        for reader in readers:
            for mname, move in moves.items():
                case = {"family": "history", "kind": kind, "read_first": reader, "move": mname}
                t.evaluations += 1
                t.nontrivial_count += 1
                try:
                    g = trimesh.PointCloud(V.copy()) if kind == "PointCloud" else trimesh.Trimesh(V.copy(), F.copy(), process=False)
                    for r in (readers[:-1] if reader == "ALL" else [reader]):
                        getattr(g, r)
                    move(g)
                    P = np.array(g.vertices)
                    tol = 1e-7 * float(np.ptp(P, axis=0).max()) + 1e-9 * float(np.abs(P).max())
                    # cached volumes first (see the C04 note: touching .vertices may itself refresh a cache)
                    hull = g.convex_hull
                    n = np.asarray(hull.face_normals)
                    o = np.asarray(hull.triangles)[:, 0]
                    if np.einsum("pfk,fk->pf", P[:, None, :] - o[None, :, :], n).max() > 10 * tol:
                        t.violation(f"convex_hull does not contain the vertices after [read; {mname}] [{kind}]", case, {})
                        continue
                    obb = g.bounding_box_oriented
                    T = np.asarray(obb.primitive.transform)
                    Q = (P - T[:3, 3]) @ T[:3, :3]
                    if (np.abs(Q) > np.asarray(obb.primitive.extents) / 2 + 10 * tol).any():
                        t.violation(f"bounding_box_oriented does not contain the vertices after [read; {mname}] [{kind}]", case, {})
                        continue
                    sp = g.bounding_sphere
                    if np.linalg.norm(P - np.asarray(sp.primitive.center), axis=1).max() > float(sp.primitive.radius) * (1 + 1e-7) + tol:
                        t.violation(f"bounding_sphere does not contain the vertices after [read; {mname}] [{kind}]", case, {})
                        continue
                    cy = g.bounding_cylinder
                    Tc = np.asarray(cy.primitive.transform)
                    Qc = (P - Tc[:3, 3]) @ Tc[:3, :3]
                    if np.linalg.norm(Qc[:, :2], axis=1).max() > float(cy.primitive.radius) * (1 + 1e-4) + tol or np.abs(Qc[:, 2]).max() > float(cy.primitive.height) / 2 * (1 + 1e-4) + tol:
                        t.violation(f"bounding_cylinder does not contain the vertices after [read; {mname}] [{kind}]", case, {})
                        continue
                    if not np.allclose(np.asarray(g.bounding_box.bounds), [P.min(axis=0), P.max(axis=0)], rtol=0, atol=10 * tol) or not np.allclose(np.asarray(g.bounds), [P.min(axis=0), P.max(axis=0)], rtol=0, atol=10 * tol):
                        t.violation(f"bounds / bounding_box are not the bounds of the vertices after [read; {mname}] [{kind}]", case, {})
                except Exception as e:
                    t.violation(f"bounding volumes after [read; {mname}] raise {type(e).__name__} [{kind}]", case, {"exc": repr(e)[:200]})
    return t


def _w_clustered(_):
    """Clustered sets: lattice points plus copies displaced by 1e-7."""
    t = harness.Tally()
    base = [(0, 0, 0), (2, 0, 0), (0, 2, 0), (0, 0, 2), (2, 2, 2)]
    import trimesh

    for combo in itertools.combinations(range(5), 4):
        pts = [base[i] for i in combo]
        P = np.array(pts, dtype=float)
        P = np.vstack([P, P + 1e-7, P - [1e-7, 0, 1e-7]])
        case = {"family": "clustered", "points": [list(p) for p in pts]}
        t.evaluations += 1
        t.nontrivial_count += 1
        try:
            h = trimesh.convex.convex_hull(P.copy())
            n = np.asarray(h.face_normals)
            o = np.asarray(h.triangles)[:, 0]
            if np.einsum("pfk,fk->pf", P[:, None, :] - o[None, :, :], n).max() > 1e-9 or not h.is_watertight or h.volume <= 0:
                t.violation("convex_hull of a clustered set does not contain every point / is not a valid solid", case, {})
            T, ext = trimesh.bounds.oriented_bounds(P.copy())
            Q = P @ np.asarray(T)[:3, :3].T + np.asarray(T)[:3, 3]
            if (np.abs(Q) > np.asarray(ext) / 2 + 1e-8).any():
                t.violation("oriented_bounds of a clustered set does not contain every point", case, {})
        except Exception as e:
            t.violation(f"clustered set raises {type(e).__name__}", case, {"exc": repr(e)[:200]})
    return t


def _run(task):
    return task[0](task[1])


def replay(case):
    t = harness.Tally()
    fam = case["family"]
    if fam == "subset":
        scale, shift, label = VARIANTS[case["variant"]]
        check_points(t, [tuple(p) for p in case["points"]], scale, shift, label, case)
    elif fam == "2d":
        pts = [tuple(p) for p in case["points"]]
        k = len(pts)
        n = list(itertools.combinations(LATTICE2, k)).index(tuple(pts))
        tot = len(list(itertools.combinations(LATTICE2, k)))
        t.merge(_w_2d((k, n, tot)))
    elif fam == "mesh":
        t.merge(_w_meshes(None))
    elif fam == "history":
        t.merge(_w_history(None))
    else:
        t.merge(_w_clustered(None))
    return [(k, d) for k, c, d in t.violations]


def main(run):
    tier = run.tier
    NS = 32
    tasks = []
    ks = (4, 5) if tier == "quick" else (4, 5, 6)
    for k in ks:
        nsl = NS if k < 6 else NS * 4
        for sl in range(nsl):
            tasks.append((_w_subsets, (k, sl, nsl, "unit")))
    # scaled / translated variants on a 1/64 slice (a fixed residue class, not a sample: stated in the evidence)
    for variant in ("small", "tiny", "large", "far", "offset"):
        for k in (4, 5):
            tasks.append((_w_subsets, (k, 7, 64, variant)))
    # three points: always planar (the coplanar fall-back of oriented_bounds), away from the origin too
    for variant in ("unit", "offset", "small"):
        for sl in range(4):
            tasks.append((_w_subsets, (3, sl, 4, variant)))
    for k in (3, 4, 5):
        for sl in range(4):
            tasks.append((_w_2d, (k, sl, 4)))
    tasks += [(_w_meshes, None), (_w_clustered, None), (_w_history, None)]
    run.log(f"{len(tasks)} tasks")
    res = harness.pmap(_run, tasks)
    run.merge(res)
    cov = {
        "exhaustive": True,
        "rule": "every k-subset of the 3x3x3 lattice for k in the stated range (rank classified exactly; hull / OBB / minimal sphere judged per rank), the residue class 7 mod 64 of them scaled by 1e-3, 1e3 and translated by 1e6, every k-subset (k=3..5) of the 4x4 lattice in 2D, 8 lattice meshes x 3 scale/translation variants for the Geometry3D bounding primitives, clustered sets",
        "k": list(ks),
    }
    return run.finish(cov, assumptions=["hull facets tested with exact integer orientation predicates", "minimal sphere: exact brute force over all 2, 3, 4 point supports", "cylinder containment to the method's 1e-4 relative tolerance"])
