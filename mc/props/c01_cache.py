"""
C01 - derived mesh values never go stale (the cache is history independent).

Explicit-state search over histories  R* M R* M ...  (R = read of one derived value,
M = one of the library's mutators) on real Trimesh objects.  States are merged on
(data bytes, overrides, cache keys with a digest of every cached value).  After every
mutator the state is checked on fresh replays: every reader must equal the same reader
on  Trimesh(vertices.copy(), faces.copy(), process=False)  with the same explicit
overrides, once reading in forward and once in reverse order.
"""

import hashlib
import itertools

import numpy as np

from mc.core import explorer, harness

LEVEL = "model_checking"

# ---------------------------------------------------------------------------
# start meshes (lattice coordinates: arithmetic below is exact)
# ---------------------------------------------------------------------------

_TET_V = np.array([[0, 0, 0], [2, 0, 0], [0, 2, 0], [0, 0, 2]], dtype=np.float64)
_TET_F = np.array([[0, 2, 1], [0, 1, 3], [1, 2, 3], [0, 3, 2]], dtype=np.int64)


def start_mesh(name):
    import trimesh

    if name == "tet":
        return trimesh.Trimesh(_TET_V.copy(), _TET_F.copy(), process=False)
    if name == "box":
        # creation.box seeds face_normals into the cache
        return trimesh.creation.box(extents=[2, 4, 6])
    if name == "two_tets":
        v = np.vstack([_TET_V, _TET_V + [5, 1, 0]])
        f = np.vstack([_TET_F, _TET_F + 4])
        return trimesh.Trimesh(v, f, process=False)
    if name == "open_box":
        b = trimesh.creation.box(extents=[2, 2, 2])
        return trimesh.Trimesh(b.vertices.copy() + 1.0, b.faces[:-2].copy(), process=False)
    if name == "tet_dup":
        # one duplicated vertex (index 4 == index 1), one unreferenced vertex (5)
        v = np.vstack([_TET_V, _TET_V[1], [7, 7, 7]])
        f = _TET_F.copy()
        f[2] = [4, 2, 3]
        return trimesh.Trimesh(v, f, process=False)
    if name.startswith("ico_hole_"):
        # 79 faces (more than the 20 rows the normals setter looks at) with one triangular hole
        ico = trimesh.creation.icosphere(subdivisions=1)
        k = int(name.rsplit("_", 1)[1])
        return trimesh.Trimesh(np.array(ico.vertices) * 2.0, np.delete(np.array(ico.faces), k, axis=0), process=False)
    if name == "tet_colors":
        m = trimesh.Trimesh(_TET_V.copy(), _TET_F.copy(), process=False)
        m.visual.face_colors = np.array([[255, 0, 0, 255], [0, 255, 0, 255], [0, 0, 255, 255], [9, 9, 9, 255]], dtype=np.uint8)
        m.face_attributes["tag"] = np.arange(4)
        m.vertex_attributes["vtag"] = np.arange(4)
        return m
    raise KeyError(name)


# ---------------------------------------------------------------------------
# readers
# ---------------------------------------------------------------------------

_Q_POINTS = np.array(
    [[0.3, 0.4, 0.2], [0.137, 0.291, 0.419], [3.1, 0.2, 0.3], [-1.2, 0.7, 0.4], [0.9, 2.3, 4.1],
     [5.4, 1.3, 0.2], [1.1, 1.2, 1.3], [0.2, 0.1, -3.0], [-0.6, -1.7, -2.6], [0.45, 0.55, 5.0]]
)
_Q_ORIG = np.array([[-7.13, 0.31, 0.27], [0.37, -9.2, 0.41], [0.29, 0.33, 11.3], [-6.1, -5.3, -4.7], [0.4, 0.3, 0.2]])
_Q_DIRS = np.array([[1, 0, 0], [0, 1, 0], [0, 0, -1], [1.0, 0.9, 0.8], [0.3, -0.2, 0.93]])


def _rows_sorted(a):
    a = np.asarray(a)
    if a.ndim == 1:
        return np.sort(a)
    if len(a) == 0:
        return a
    return a[np.lexsort(a.T[::-1])]


def _adj_bundle(m, which):
    """face adjacency aligned arrays as rows sorted by the (sorted) face pair."""
    # the named value is read BEFORE the array it is aligned with: reading the partner first can
    # recompute both and hide a stale entry
    first = None if which == "pairs" else np.array(getattr(m, which))
    adj = np.asarray(m.face_adjacency)
    if len(adj) == 0:
        return np.zeros((0, 2))
    swap = adj[:, 0] > adj[:, 1]
    pair = np.sort(adj, axis=1)
    order = np.lexsort(pair.T[::-1])
    if which == "pairs":
        return pair[order]
    val = first
    if len(val) != len(adj):
        return ("misaligned", len(val), len(adj))
    if which in ("face_adjacency_radius", "face_adjacency_span"):
        # radius = span / (2 sin(angle / 2)) is ill conditioned for nearly coplanar pairs
        val = np.where(np.abs(np.sin(np.asarray(m.face_adjacency_angles))) < 1e-4, -1.0, np.where(np.isfinite(val), val, -2.0)) if which == "face_adjacency_radius" else val
    if which == "face_adjacency_unshared":
        val = val.copy()
        val[swap] = val[swap][:, ::-1]
    if which == "face_adjacency_edges":
        val = np.sort(val, axis=1)
    # ties (same pair twice) : secondary sort by value for determinism
    if val.ndim == 1:
        rec = np.column_stack([pair, val])
    else:
        rec = np.column_stack([pair, val])
    return _rows_sorted(np.round(rec, 9)) if rec.dtype.kind == "f" else _rows_sorted(rec)


def _ray(m, engine, what):
    import trimesh

    if engine == "embree":
        r = m.ray
    else:
        r = trimesh.ray.ray_triangle.RayMeshIntersector(m)
    if what == "any":
        return r.intersects_any(_Q_ORIG, _Q_DIRS)
    loc, ray, tri = r.intersects_location(_Q_ORIG, _Q_DIRS, multiple_hits=True)
    rec = np.column_stack([ray, tri, np.round(loc, 6)])
    return _rows_sorted(rec)


def _hull(m):
    h = m.convex_hull
    return np.concatenate([[float(h.volume), float(h.area)], _rows_sorted(np.round(h.vertices, 9)).ravel()])


def _setlist(v):
    return sorted(tuple(sorted(int(i) for i in x)) for x in v)


READERS = {
    "face_normals": lambda m: m.face_normals,
    "vertex_normals": lambda m: m.vertex_normals,
    "area": lambda m: m.area,
    "area_faces": lambda m: m.area_faces,
    "volume": lambda m: m.volume,
    "center_mass": lambda m: m.center_mass,
    "moment_inertia": lambda m: m.moment_inertia,
    "mass": lambda m: m.mass,
    "bounds": lambda m: m.bounds,
    "extents": lambda m: m.extents,
    "scale": lambda m: m.scale,
    "centroid": lambda m: m.centroid,
    "triangles": lambda m: m.triangles,
    "triangles_center": lambda m: m.triangles_center,
    "triangles_cross": lambda m: m.triangles_cross,
    "edges": lambda m: m.edges,
    "edges_face": lambda m: m.edges_face,
    "edges_sorted": lambda m: m.edges_sorted,
    "edges_unique": lambda m: _rows_sorted(m.edges_unique),
    "edges_unique_inverse": lambda m: (lambda inv: np.asarray(m.edges_unique)[inv])(np.array(m.edges_unique_inverse)),
    "edges_unique_length": lambda m: (lambda ln: _rows_sorted(np.column_stack([m.edges_unique, ln])))(np.array(m.edges_unique_length)),
    "edges_sparse": lambda m: m.edges_sparse.toarray().astype(np.int64),
    "faces_sparse": lambda m: m.faces_sparse.toarray().astype(np.int64),
    "faces_unique_edges": lambda m: (lambda fu: np.asarray(m.edges_unique)[fu])(np.array(m.faces_unique_edges)),
    "face_adjacency": lambda m: _adj_bundle(m, "pairs"),
    "face_adjacency_edges": lambda m: _adj_bundle(m, "face_adjacency_edges"),
    "face_adjacency_unshared": lambda m: _adj_bundle(m, "face_adjacency_unshared"),
    "face_adjacency_angles": lambda m: _adj_bundle(m, "face_adjacency_angles"),
    "face_adjacency_convex": lambda m: _adj_bundle(m, "face_adjacency_convex"),
    "face_adjacency_projections": lambda m: _adj_bundle(m, "face_adjacency_projections"),
    "face_adjacency_radius": lambda m: _adj_bundle(m, "face_adjacency_radius"),
    "face_adjacency_span": lambda m: _adj_bundle(m, "face_adjacency_span"),
    "face_angles": lambda m: m.face_angles,
    "vertex_defects": lambda m: m.vertex_defects,
    "vertex_degree": lambda m: m.vertex_degree,
    "vertex_faces": lambda m: np.sort(m.vertex_faces, axis=1),
    "vertex_neighbors": lambda m: _setlist(m.vertex_neighbors),
    "referenced_vertices": lambda m: m.referenced_vertices,
    "euler_number": lambda m: m.euler_number,
    "body_count": lambda m: m.body_count,
    "is_watertight": lambda m: m.is_watertight,
    "is_winding_consistent": lambda m: m.is_winding_consistent,
    "is_volume": lambda m: m.is_volume,
    "is_convex": lambda m: m.is_convex,
    "facets": lambda m: _setlist(m.facets),
    "facets_area": lambda m: np.sort(m.facets_area),
    "facets_normal": lambda m: _rows_sorted(np.round(m.facets_normal, 9)),
    "facets_boundary": lambda m: sorted(_setlist(np.asarray(b).reshape(-1, 2).tolist()) for b in m.facets_boundary),
    "principal_inertia_components": lambda m: m.principal_inertia_components,
    "integral_mean_curvature": lambda m: m.integral_mean_curvature,
    "symmetry": lambda m: m.symmetry,
    "identifier": lambda m: m.identifier,
    "convex_hull": _hull,
    "bounding_box_extents": lambda m: m.bounding_box.primitive.extents,
    "obb_extents": lambda m: np.sort(m.bounding_box_oriented.primitive.extents),
    "ray_embree": lambda m: _ray(m, "embree", "loc"),
    "ray_embree_any": lambda m: _ray(m, "embree", "any"),
    "ray_rtree": lambda m: _ray(m, "rtree", "loc"),
    "nearest": lambda m: np.round(np.column_stack(m.nearest.on_surface(_Q_POINTS)[:2]), 7),
    "nearest_vertex": lambda m: np.column_stack(m.nearest.vertex(_Q_POINTS)),
    "contains": lambda m: m.contains(_Q_POINTS),
    "kdtree_query": lambda m: np.column_stack(m.kdtree.query(_Q_POINTS)),
    "triangles_tree_bounds": lambda m: np.asarray(m.triangles_tree.bounds),
}
# loose tolerance for values designed to be rounding robust / iterative
# arccos near +-1 amplifies 1e-16 to 1e-8: adjacency angles get a looser tolerance
LOOSE = {"face_adjacency_angles": 1e-6, "integral_mean_curvature": 1e-6, "identifier": 1e-5, "principal_inertia_components": 1e-7, "obb_extents": 1e-6, "symmetry": 0}
# cheap readers used as single pre-reads in the quick tier (all cache keys still come from 'ALL')
EXPENSIVE = {"convex_hull", "obb_extents", "ray_embree", "ray_embree_any", "ray_rtree", "nearest", "contains", "identifier", "symmetry", "facets_boundary", "bounding_box_extents", "nearest_vertex", "kdtree_query", "triangles_tree_bounds", "principal_inertia_components", "integral_mean_curvature"}


def observe(m, name):
    # library-internal randomness (contains_points retry directions) is owned: same seed
    # for the explored mesh and for the fresh mesh
    np.random.seed(12345)
    try:
        v = READERS[name](m)
    except Exception as e:
        return ("raises", type(e).__name__)
    return ("ok", v)


def same(name, a, b):
    if a[0] != b[0]:
        return False
    if a[0] == "raises":
        return a[1] == b[1]
    x, y = a[1], b[1]
    if isinstance(x, (list, tuple, str)) or x is None or y is None:
        return x == y
    x = np.asarray(x)
    y = np.asarray(y)
    if x.shape != y.shape:
        return False
    if x.dtype.kind in "biu" and y.dtype.kind in "biu":
        return bool((x == y).all())
    tol = LOOSE.get(name, 1e-9)
    scale = max(1.0, float(np.abs(y[np.isfinite(y)]).max()) if np.isfinite(y).any() else 1.0)
    with np.errstate(invalid="ignore"):
        ok = (np.abs(x - y) <= tol * scale) | ((x == y)) | (np.isnan(x) & np.isnan(y))
    return bool(ok.all())


# ---------------------------------------------------------------------------
# mutators
# ---------------------------------------------------------------------------


def _T(name):
    m = np.eye(4)
    if name == "translation":
        m[:3, 3] = [1, -2, 3]
    elif name == "rot90":
        m[:3, :3] = [[0, -1, 0], [1, 0, 0], [0, 0, 1]]
    elif name == "rigid345":
        m[:3, :3] = [[0.6, -0.8, 0], [0.8, 0.6, 0], [0, 0, 1]]
        m[:3, 3] = [1, 2, 3]
    elif name == "mirror":
        m[0, 0] = -1
    elif name == "improper":
        m[:3, :3] = [[0, 1, 0], [1, 0, 0], [0, 0, 1]]
    elif name == "scale2":
        m[:3, :3] *= 2
    elif name == "aniso":
        m[:3, :3] = np.diag([1.0, 2.0, 3.0])
    elif name == "aniso_mirror":
        m[:3, :3] = np.diag([-1.0, 2.0, 1.0])
    elif name == "shear":
        m[0, 1] = 1.0
        m[1, 2] = 2.0
    else:
        raise KeyError(name)
    return m


TRANSFORMS = ["translation", "rot90", "rigid345", "mirror", "improper", "scale2", "aniso", "aniso_mirror", "shear"]

MUTATORS = (
    [["apply_transform", t] for t in TRANSFORMS]
    + [["apply_scale", 2.0], ["apply_scale_vec", [1.0, 2.0, 0.5]], ["apply_translation", [0.5, 0.25, -1.0]], ["rezero"]]
    + [["invert"]]
    + [["update_faces", "bool_drop_first"], ["update_faces", "bool_keep_one"], ["update_faces", "int_permute"], ["update_faces", "int_repeat"]]
    + [["update_vertices", "drop_last"], ["update_vertices", "drop_first"]]
    + [["merge_vertices"], ["remove_unreferenced_vertices"], ["unmerge_vertices"], ["remove_infinite_values"]]
    + [["merge_vertices_opt", "merge_norm"], ["update_vertices_inverse", "fold_duplicates"]]
    + [["process", False], ["process", True], ["fix_normals"], ["fill_holes"]]
    + [["edit", "vertex_item"], ["edit", "vertices_imul"], ["edit", "face_reverse"], ["edit", "vertices_nan"]]
    + [["view_take"], ["view_write"]]
    + [["assign", "vertices"], ["assign", "faces"], ["assign", "faces_fewer"]]
    + [["set", "density"], ["set", "center_mass"]]
    + [["copy", "copy"], ["copy", "copy_cache"], ["copy", "copy.copy"], ["copy", "deepcopy"]]
)


class Ctx:
    pass


def _tp(M, p):
    return (M[:3, :3] @ np.asarray(p, dtype=float)) + M[:3, 3]


def apply_mutator(ctx, a):
    import copy as _copy

    m = ctx.m
    op = a[0]
    if op == "apply_transform":
        M = _T(a[1])
        m.apply_transform(M)
        if ctx.cm is not None:
            ctx.cm = _tp(M, ctx.cm)
    elif op == "apply_scale":
        m.apply_scale(a[1])
        if ctx.cm is not None:
            ctx.cm = ctx.cm * a[1]
    elif op == "apply_scale_vec":
        m.apply_scale(a[1])
        if ctx.cm is not None:
            ctx.cm = ctx.cm * np.array(a[1])
    elif op == "apply_translation":
        m.apply_translation(a[1])
        if ctx.cm is not None:
            ctx.cm = ctx.cm + np.array(a[1])
    elif op == "rezero":
        # the override moves by the translation that was actually applied (the bounds of the
        # referenced vertices decide it, not the minimum over all vertices)
        v0 = np.array(m.vertices[0]) if len(m.vertices) else np.zeros(3)
        m.rezero()
        v1 = np.array(m.vertices[0]) if len(m.vertices) else np.zeros(3)
        if ctx.cm is not None and np.isfinite(v1 - v0).all():
            ctx.cm = ctx.cm + (v1 - v0)
    elif op == "invert":
        m.invert()
    elif op == "update_faces":
        n = len(m.faces)
        if a[1] == "bool_drop_first":
            mask = np.ones(n, dtype=bool)
            mask[:1] = False
        elif a[1] == "bool_keep_one":
            mask = np.zeros(n, dtype=bool)
            mask[-1:] = True
        elif a[1] == "int_permute":
            mask = np.arange(n)[::-1]
        else:
            mask = np.array([0, 0, n - 1]) if n else np.array([], dtype=int)
        m.update_faces(mask)
    elif op == "update_vertices":
        n = len(m.vertices)
        mask = np.ones(n, dtype=bool)
        if n:
            mask[-1 if a[1] == "drop_last" else 0] = False
        m.update_vertices(mask)
    elif op == "merge_vertices":
        m.merge_vertices()
    elif op == "merge_vertices_opt":
        # vertices at the same position are merged although their normals differ
        m.merge_vertices(merge_norm=True, merge_tex=True)
    elif op == "update_vertices_inverse":
        # a hand-made (mask, inverse) pair folding every vertex onto the first vertex at its position
        V = np.asarray(m.vertices)
        first = {}
        keep = []
        inverse = np.zeros(len(V), dtype=np.int64)
        for i, p in enumerate(V.tolist()):
            k = tuple(p)
            if k not in first:
                first[k] = len(keep)
                keep.append(i)
            inverse[i] = first[k]
        mask = np.zeros(len(V), dtype=bool)
        mask[keep] = True
        m.update_vertices(mask, inverse=inverse)
    elif op == "remove_unreferenced_vertices":
        m.remove_unreferenced_vertices()
    elif op == "unmerge_vertices":
        m.unmerge_vertices()
    elif op == "remove_infinite_values":
        m.remove_infinite_values()
    elif op == "process":
        m.process(validate=a[1])
    elif op == "fix_normals":
        m.fix_normals()
    elif op == "fill_holes":
        m.fill_holes()
    elif op == "edit":
        if a[1] == "vertex_item":
            m.vertices[0, 0] += 1.0
        elif a[1] == "vertices_imul":
            m.vertices *= 2.0
        elif a[1] == "face_reverse":
            m.faces[0] = m.faces[0][::-1].copy()
        elif a[1] == "vertices_nan":
            m.vertices[-1, 2] = np.nan
    elif op == "view_take":
        ctx.view = m.vertices[0]
    elif op == "view_write":
        if ctx.view is not None:
            ctx.view[1] += 0.5
    elif op == "assign":
        if a[1] == "vertices":
            m.vertices = np.array(m.vertices) * [1.0, 1.0, 2.0] + [0.0, 1.0, 0.0]
        elif a[1] == "faces":
            m.faces = np.array(m.faces)[::-1].copy()
        else:
            m.faces = np.array(m.faces)[:-1].copy()
    elif op == "set":
        if a[1] == "density":
            m.density = 2.5
            ctx.density = 2.5
        else:
            m.center_mass = [0.5, 0.25, 0.125]
            ctx.cm = np.array([0.5, 0.25, 0.125])
    elif op == "copy":
        if a[1] == "copy":
            ctx.m = m.copy()
        elif a[1] == "copy_cache":
            ctx.m = m.copy(include_cache=True)
        elif a[1] == "copy.copy":
            ctx.m = _copy.copy(m)
        else:
            ctx.m = _copy.deepcopy(m)
        ctx.view = None
    else:
        raise KeyError(op)


def _digest(v):
    try:
        if hasattr(v, "tobytes"):
            return hashlib.blake2b(np.ascontiguousarray(v).tobytes(), digest_size=8).hexdigest()
        if hasattr(v, "toarray"):
            return hashlib.blake2b(v.toarray().tobytes(), digest_size=8).hexdigest()
        if isinstance(v, (int, float, bool, str, tuple)) or v is None:
            return repr(v)
        if isinstance(v, (list,)):
            return hashlib.blake2b(repr([np.asarray(x).tolist() for x in v]).encode(), digest_size=8).hexdigest()
    except Exception:
        pass
    return type(v).__name__


def fresh_of(ctx):
    import trimesh

    m = ctx.m
    f = trimesh.Trimesh(np.array(m.vertices, copy=True), np.array(m.faces, copy=True), process=False)
    if ctx.density is not None:
        f.density = ctx.density
    if ctx.cm is not None:
        f.center_mass = ctx.cm
    return f


class System:
    def __init__(self, starts, pre_reads, max_mutators, reads_per_segment, mutators=MUTATORS, check_readers=None, both_orders=True):
        self.both_orders = both_orders
        self._starts = starts
        self.pre_reads = pre_reads  # reader names usable as single reads (+ 'ALL')
        self.max_mutators = max_mutators
        self.reads_per_segment = reads_per_segment
        self.mutators = mutators
        self.check_readers = check_readers or list(READERS)

    def starts(self):
        return list(self._starts)

    def build(self, start, hist):
        ctx = Ctx()
        harness.seed_everything(0, len(hist))
        ctx.m = start_mesh(start)
        ctx.cm = None
        ctx.density = None
        ctx.view = None
        ctx.nmut = 0
        ctx.nread = 0
        ctx.exc = None
        for a in hist:
            self.apply(ctx, a)
        return ctx

    def apply(self, ctx, a):
        if a[0] == "read":
            ctx.nread += 1
            if a[1] == "ALL":
                for r in self.check_readers:
                    observe(ctx.m, r)
            elif a[1] == "ALL_REVERSED":
                for r in self.check_readers[::-1]:
                    observe(ctx.m, r)
            else:
                observe(ctx.m, a[1])
            return
        ctx.nmut += 1
        ctx.nread = 0
        try:
            apply_mutator(ctx, a)
            ctx.exc = None
        except Exception as e:
            ctx.exc = type(e).__name__

    def actions(self, ctx):
        acts = []
        if ctx.nmut >= self.max_mutators:
            return acts
        if ctx.nread < self.reads_per_segment:
            acts += [["read", r] for r in self.pre_reads]
        finite = bool(np.isfinite(np.asarray(ctx.m.vertices)).all())
        for mu in self.mutators:
            if mu[0] == "view_write" and ctx.view is None:
                continue
            # a mesh holding NaN is only in the domain of the operations meant to clean it
            # (transforms by NaN-derived matrices are not transforms); C07 covers the rest
            if not finite and mu[0] not in ("remove_infinite_values", "process", "assign", "copy", "update_vertices"):
                continue
            acts.append(mu)
        return acts

    def cost(self, a):
        return 0

    def canon(self, ctx):
        m = ctx.m
        try:
            c = m._cache
            live = c.id_current == m.__hash__()
            cache = tuple(sorted((str(k), _digest(v)) for k, v in c.cache.items())) if live else ()
            data = tuple(sorted((k, _digest(v)) for k, v in m._data.data.items()))
        except AttributeError:
            # the private fields are not where this check knows them (a refactor): digest the whole private state
            cache = ("generic", harness.short_hash(repr(harness.generic_state(m, depth=4))))
            data = (_digest(np.asarray(m.vertices)), _digest(np.asarray(m.faces)))
        return (data, cache, ctx.nmut, ctx.nread, ctx.view is not None and _digest(ctx.view),
                None if ctx.cm is None else tuple(ctx.cm), ctx.density, _digest(m.visual.face_colors) if m.visual.defined else None)

    def nontrivial(self, ctx, hist):
        """None: a read (nothing compared).  True: a mutator that left a live, non-empty cache behind,
        i.e. at least one derived value was carried across the mutation and could be stale."""
        if hist and hist[-1][0] == "read":
            return None
        try:
            c = ctx.m._cache
            return bool(c.id_current == ctx.m.__hash__() and len(c.cache) > 0)
        except AttributeError:
            return True

    def check(self, start, hist):
        if hist and hist[-1][0] == "read":
            return []
        out = None
        for order in ((0, 1) if self.both_orders else (0,)):
            ctx = self.build(start, hist)
            m = ctx.m
            try:
                fresh = fresh_of(ctx)
            except Exception as e:
                return [(f"{_mut_name(hist)} -> arrays no longer form a mesh", {"exc": repr(e)})]
            fkey = (_digest(m.vertices), _digest(m.faces), ctx.density, None if ctx.cm is None else tuple(ctx.cm))
            # which cache entries present before reading are stale?
            stale = []
            if order == 0:
                c = getattr(m, "_cache", None)
                if c is not None and hasattr(c, "cache") and getattr(c, "id_current", None) == m.__hash__():
                    for k in READERS:
                        if k in c.cache:
                            try:
                                # raw cached value vs the fresh mesh's raw value
                                fv = getattr(fresh, k)
                                cv = c.cache[k]
                                if not same(k, ("ok", _raw(cv)), ("ok", _raw(fv))):
                                    stale.append(k)
                            except Exception:
                                pass
            # a cache entry that survived the mutator although it is wrong: its own reader, read FIRST on a
            # replay of its own, must not serve it (reading other values first can recompute and hide it)
            if order == 0:
                for k in stale:
                    c2 = self.build(start, hist)
                    got = observe(c2.m, k)
                    want = _fresh_obs(fkey, fresh, k)
                    if not same(k, got, want):
                        out = [(f"{_mut_name(hist)} keeps stale cached {k}", {"reader": k, "got": got, "want": want, "stale_cache_entries": stale, "read_order": "stale entry read first"})]
                        break
                if out:
                    break
            names = self.check_readers if order == 0 else self.check_readers[::-1]
            for r in names:
                got = observe(m, r)
                want = _fresh_obs(fkey, fresh, r)
                if not same(r, got, want):
                    mn = _mut_name(hist)
                    # root cause: a stale cache entry whose own reader is wrong too
                    eff = [k for k in stale if not same(k, observe(m, k), _fresh_obs(fkey, fresh, k))]
                    if order == 0 and eff:
                        key = f"{mn} keeps stale cached {eff[0]}"
                    else:
                        key = f"{mn} -> {r} differs from a fresh mesh"
                    out = [(key, {"reader": r, "got": got, "want": want, "stale_cache_entries": stale, "read_order": "forward" if order == 0 else "reverse"})]
                    break
            if out:
                break
        if not out and any(a[0] == "read" for a in hist):
            # differential oracle: the same mutators without any read must produce the same arrays
            a = self.build(start, hist)
            b = self.build(start, [x for x in hist if x[0] != "read"])
            va, vb = np.asarray(a.m.vertices), np.asarray(b.m.vertices)
            fa, fb = np.asarray(a.m.faces), np.asarray(b.m.faces)
            if va.shape != vb.shape or fa.shape != fb.shape or not (fa == fb).all() or not np.allclose(va, vb, rtol=1e-12, atol=1e-12, equal_nan=True):
                out = [(f"{_mut_name(hist)} result arrays depend on which values were read before",
                        {"with_reads": {"vertices": va, "faces": fa}, "without_reads": {"vertices": vb, "faces": fb}})]
        return out or []


_FRESH_MEMO = {}


def _fresh_obs(fkey, fresh, r):
    """Observations of the fresh mesh depend only on (vertices, faces, overrides): memoise per worker."""
    k = (fkey, r)
    if k not in _FRESH_MEMO:
        if len(_FRESH_MEMO) > 200000:
            _FRESH_MEMO.clear()
        _FRESH_MEMO[k] = observe(fresh, r)
    return _FRESH_MEMO[k]


def _raw(v):
    if hasattr(v, "toarray"):
        return v.toarray()
    if isinstance(v, list):
        return _setlist(v) if len(v) and hasattr(v[0], "__len__") else v
    return v


def _mut_name(hist):
    last = hist[-1] if hist else ["init"]
    s = last[0]
    if len(last) > 1:
        s += f"[{last[1]}]"
    return s


# ---------------------------------------------------------------------------


def replay(case):
    s = System([case["start"]], list(READERS) + ["ALL"], 9, 9)
    return s.check(case["start"], case["history"])


def main(run):
    tier = run.tier
    cheap = [r for r in READERS if r not in EXPENSIVE]
    if tier == "quick":
        systems = [
            ("d1_r2_box", System(["box"], cheap + ["ALL"], 1, 2, both_orders=False), 3, None),
            ("d1_r1_all_meshes", System(["tet", "two_tets", "open_box", "tet_dup", "tet_colors"], cheap + ["ALL"], 1, 1, both_orders=False), 2, None),
            ("d2_r1_allreads", System(["tet", "box", "tet_dup"], ["ALL", "face_normals", "vertex_normals", "edges"], 2, 1, both_orders=True), 4, None),
            # a larger mesh with a hole (either orientation of the patch triangle): normals read, then one mutator
            ("d1_r1_ico_hole", System(["ico_hole_0", "ico_hole_2"], ["ALL", "face_normals", "vertex_normals"], 1, 1, both_orders=False), 2, None),
        ]
    else:
        few = ["ALL", "face_normals", "vertex_normals", "edges_unique", "face_adjacency", "triangles", "center_mass", "vertex_faces"]
        systems = [
            ("d1_r2", System(["tet", "box", "two_tets", "open_box", "tet_dup", "tet_colors"], list(READERS) + ["ALL", "ALL_REVERSED"], 1, 2), 3, None),
            ("d2_r1", System(["tet", "box", "tet_dup"], few, 2, 1), 4, None),
            # three mutators: the frontier is capped (reported as capped, not as exhaustive)
            ("d3_r1_few", System(["tet", "tet_dup"], ["ALL", "face_normals"], 3, 1), 6, 60000),
            ("d1_r1_ico_hole", System(["ico_hole_0", "ico_hole_2", "ico_hole_33"], ["ALL", "face_normals", "vertex_normals", "edges", "face_adjacency"], 1, 1), 2, None),
        ]
    total = {"states": 0, "transitions": 0}
    parts = {}
    for name, sysm, depth, cap in systems:
        run.log(f"search {name}")
        r = explorer.bfs(sysm, run, max_depth=depth, state_cap=cap)
        parts[name] = r
        total["states"] += r["states"]
        total["transitions"] += r["transitions"]
        run.tally.evaluations += r["oracle_transitions"]
        run.tally.nontrivial_count += r["nontrivial_states"]
    cov = {
        "states": total["states"],
        "transitions": total["transitions"],
        "traces_validated_against_impl": total["transitions"],
        "searches": parts,
        "readers": len(READERS),
        "mutators": len(MUTATORS),
        "exhaustive": not any(v["capped"] for v in parts.values()),
        "caps": "; ".join(f"{k}: state cap reached at depth {v['depth_completed']} ({v['states']} states), complete below" for k, v in parts.items() if v["capped"]) or "none",
        "samples": [
            {"start": "box", "history": [["read", "face_normals"], ["apply_transform", "aniso"]], "then": "every reader compared with a fresh mesh, forward and reverse order"},
            {"start": "tet", "history": [["read", "edges"], ["read", "vertex_normals"], ["invert"]]},
        ],
        "rule": "history = (<= r single reads or ALL)* mutator, repeated d times; merged on (data digests, cache keys + value digests, overrides); after every mutator all readers are compared with Trimesh(vertices.copy(), faces.copy(), process=False) carrying the same overrides, on two fresh replays (forward / reverse read order). evaluations = transitions ending in a mutator (each compares every reader); distinct_nontrivial = distinct states reached by a mutator that left a live non-empty cache behind (a derived value was carried across the mutation)",
    }
    return run.finish(
        cov,
        assumptions=[
            "floating values compared with rtol 1e-9 (1e-5..1e-7 for identifier, principal inertia, OBB extents)",
            "face-adjacency aligned arrays are compared as sets of records keyed by the face pair; edges_unique-aligned arrays through composition with edges_unique",
            "near-identity matrices are left to C04 (the identity shortcuts have their own tolerance)",
            "assigned normals (cache-resident overrides) are not in the alphabet",
        ],
    )
