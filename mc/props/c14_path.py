"""
C14 - paths rebuild the same regions from segments in any order.

Engine E2 + E1 (short histories).  Lattice drawings (square, L, triangle, square with one
and two holes, hole-in-island, two squares; circle / ring / slot with arcs): every
splitting of every loop into polylines at its vertices, every permutation of the entity
list and every direction assignment, up to a total entity bound.  Exact oracle for
polygonal input: number of closed paths, shells and holes, area (shoelace in Fractions),
length, body count.  Histories: (reads)? -> apply_transform(similarity) -> reads, against
scaling laws and a freshly built path; export -> re-import through DXF, SVG and dict.
"""

import io
import itertools
from fractions import Fraction as Fr

import numpy as np

from mc.core import harness

LEVEL = "exploration"


# ---------------------------------------------------------------------------
# drawings: loops of lattice points with a nesting depth
# ---------------------------------------------------------------------------


def sq(x0, y0, x1, y1):
    return [(x0, y0), (x1, y0), (x1, y1), (x0, y1)]


DRAWINGS = {
    "triangle": [[(0, 0), (6, 0), (0, 4)]],
    "square": [sq(0, 0, 4, 4)],
    "L_shape": [[(0, 0), (6, 0), (6, 2), (2, 2), (2, 6), (0, 6)]],
    "square_with_hole": [sq(0, 0, 8, 8), sq(2, 2, 5, 6)],
    "square_with_two_holes": [sq(0, 0, 10, 6), sq(1, 1, 4, 5), sq(6, 2, 9, 4)],
    "hole_in_island": [sq(0, 0, 12, 12), sq(2, 2, 10, 10), sq(4, 4, 8, 8)],
    "two_squares": [sq(0, 0, 3, 3), sq(5, 1, 9, 4)],
}


def shoelace(loop):
    a = Fr(0)
    for (x0, y0), (x1, y1) in zip(loop, loop[1:] + loop[:1]):
        a += Fr(x0) * y1 - Fr(x1) * y0
    return abs(a) / 2


def perimeter(loop):
    return sum(np.sqrt(float((x1 - x0) ** 2 + (y1 - y0) ** 2)) for (x0, y0), (x1, y1) in zip(loop, loop[1:] + loop[:1]))


def inside(pt, loop):
    x, y = pt
    c = False
    for (x0, y0), (x1, y1) in zip(loop, loop[1:] + loop[:1]):
        if (y0 > y) != (y1 > y) and x < x0 + Fr(y - y0) * (x1 - x0) / (y1 - y0):
            c = not c
    return c


def expected(loops):
    """Shells (even depth) with their holes (odd depth children); exact areas."""
    depth = []
    for i, lp in enumerate(loops):
        p = (Fr(lp[0][0]) + Fr(1, 7), Fr(lp[0][1]) + Fr(1, 11))  # a point just inside the first corner? use centroid of first edge inward
        # depth = number of other loops containing a vertex of this loop
        d = sum(1 for j, other in enumerate(loops) if j != i and inside((Fr(lp[0][0]), Fr(lp[0][1])), other))
        depth.append(d)
    shells = []
    for i, lp in enumerate(loops):
        if depth[i] % 2 == 0:
            holes = [j for j, other in enumerate(loops) if depth[j] == depth[i] + 1 and inside((Fr(other[0][0]), Fr(other[0][1])), lp)]
            shells.append((float(shoelace(lp)), len(holes), float(shoelace(lp) - sum(shoelace(loops[j]) for j in holes))))
    area = sum(s[2] for s in shells)
    length = sum(perimeter(lp) for lp in loops)
    return {"n_closed": len(loops), "shells": sorted(shells), "area": area, "length": length, "body_count": len(shells)}


# ---------------------------------------------------------------------------
# variants
# ---------------------------------------------------------------------------


def loop_splits(k):
    """All non-empty cut sets of a loop with k vertices -> list of index polylines (closed when one cut)."""
    out = []
    for r in range(1, k + 1):
        for cuts in itertools.combinations(range(k), r):
            pls = []
            for a, b in zip(cuts, cuts[1:] + (cuts[0] + k,)):
                pls.append([i % k for i in range(a, b + 1)])
            out.append(pls)
    return out


def variants(loops, max_entities):
    """Yield (entities as lists of vertex indices, label) over splits x directions x permutations."""
    offs = np.cumsum([0] + [len(lp) for lp in loops])
    per_loop = [loop_splits(len(lp)) for lp in loops]
    for combo in itertools.product(*per_loop):
        ents = []
        for li, pls in enumerate(combo):
            for pl in pls:
                ents.append([offs[li] + i for i in pl])
        n = len(ents)
        if n > max_entities:
            continue
        for dirs in itertools.product((False, True), repeat=n):
            for perm in itertools.permutations(range(n)):
                yield [list(map(int, ents[p][::-1] if dirs[p] else ents[p])) for p in perm]


def build_path(loops, ents):
    from trimesh.path import Path2D
    from trimesh.path.entities import Line

    V = np.array([p for lp in loops for p in lp], dtype=float)
    return Path2D(entities=[Line(e) for e in ents], vertices=V.copy(), process=False)


def read_regions(p):
    polys = p.polygons_full
    shells = sorted((float(pg.exterior.length and __import__("shapely").geometry.Polygon(pg.exterior).area), len(pg.interiors), float(pg.area)) for pg in polys)
    return {
        "n_closed": len(p.paths),
        "shells": shells,
        "area": float(p.area),
        "length": float(p.length),
        "body_count": int(p.body_count),
        "is_closed": bool(p.is_closed),
    }


def regions_equal(got, want, tol=1e-9):
    if got["n_closed"] != want["n_closed"] or got["body_count"] != want["body_count"] or len(got["shells"]) != len(want["shells"]):
        return "number of closed paths / shells"
    for a, b in zip(got["shells"], want["shells"]):
        if a[1] != b[1] or abs(a[0] - b[0]) > tol * max(1, b[0]) or abs(a[2] - b[2]) > tol * max(1, b[2]):
            return "shell / hole nesting"
    if abs(got["area"] - want["area"]) > tol * max(1, want["area"]):
        return "area"
    if abs(got["length"] - want["length"]) > tol * max(1, want["length"]):
        return "length"
    if "is_closed" in got and not got["is_closed"]:
        return "is_closed"
    return None


# ---------------------------------------------------------------------------
# workers
# ---------------------------------------------------------------------------


def _w_variants(task):
    name, max_entities, sl, nsl = task
    t = harness.Tally()
    loops = DRAWINGS[name]
    want = expected(loops)
    for k, ents in enumerate(variants(loops, max_entities)):
        if k % nsl != sl:
            continue
        case = {"family": "variant", "drawing": name, "entities": ents}
        t.evaluations += 1
        t.nontrivial_count += 1
        try:
            p = build_path(loops, ents)
            got = read_regions(p)
        except Exception as e:
            t.violation(f"reading regions raises {type(e).__name__} [{len(ents)} entities]", case, {"exc": repr(e)[:300]})
            continue
        bad = regions_equal(got, want)
        if bad:
            nrev = sum(1 for e in ents if len(e) > 1 and e != sorted(e) and e[0] != e[-1])
            t.violation(f"polygonal path split into entities: {bad} differs from the exact value [{name}]", case, {"got": got, "want": want})
        if k % 997 == 0:
            t.sample(case, limit=1)
    return t


def M2(name):
    m = np.eye(3)
    if name == "rot90":
        m[:2, :2] = [[0, -1], [1, 0]]
    elif name == "rot345":
        m[:2, :2] = [[0.6, -0.8], [0.8, 0.6]]
        m[:2, 2] = [1, 2]
    elif name == "mirror":
        m[0, 0] = -1
    elif name == "scale2":
        m[:2, :2] *= 2
    elif name == "similarity":
        m[:2, :2] = 3 * np.array([[0, 1], [1, 0]])  # mirror + rotation + scale
        m[:2, 2] = [0, -5]
    else:
        m[:2, 2] = [3, -1]
    return m


READSETS = {
    "none": [],
    "paths": ["paths"],
    "discrete": ["discrete"],
    "polygons_full": ["polygons_full"],
    "area": ["area"],
    "everything": ["paths", "discrete", "polygons_closed", "polygons_full", "area", "length", "bounds", "enclosure_directed", "root", "vertex_graph", "is_closed", "body_count", "extents", "centroid", "identifier"],
}


def arc_drawings():
    """name -> (vertices, entity factory list) with arcs."""
    from trimesh.path.entities import Arc, Line

    out = {}
    r = 2.0
    c = np.array([3.0, 1.0])
    ang = lambda a: c + r * np.array([np.cos(a), np.sin(a)])  # noqa
    # circle as two arcs (each through a midpoint)
    V = np.array([ang(0), ang(np.pi / 2), ang(np.pi), ang(3 * np.pi / 2)])
    out["circle_two_arcs"] = (V, [("Arc", [0, 1, 2]), ("Arc", [2, 3, 0])], np.pi * r * r, 2 * np.pi * r, 1)
    # circle as three arcs
    a = [0, np.pi / 3, 2 * np.pi / 3, np.pi, 4 * np.pi / 3, 5 * np.pi / 3]
    V = np.array([ang(x) for x in a])
    out["circle_three_arcs"] = (V, [("Arc", [0, 1, 2]), ("Arc", [2, 3, 4]), ("Arc", [4, 5, 0])], np.pi * r * r, 2 * np.pi * r, 1)
    # slot: two lines + two half circles
    V = np.array([[0, 0], [4, 0], [5, 1], [4, 2], [0, 2], [-1, 1]], dtype=float)
    out["slot"] = (V, [("Line", [0, 1]), ("Arc", [1, 2, 3]), ("Line", [3, 4]), ("Arc", [4, 5, 0])], 8 + np.pi, 8 + 2 * np.pi, 1)
    # ring: outer circle (2 arcs) + inner closed circle
    V = np.vstack([np.array([ang(0), ang(np.pi / 2), ang(np.pi), ang(3 * np.pi / 2)]), c + 0.5 * np.array([[1, 0], [0, 1], [-1, 0]])])
    out["ring_of_arcs"] = (V, [("Arc", [0, 1, 2]), ("Arc", [2, 3, 0]), ("ArcClosed", [4, 5, 6])], np.pi * (r * r - 0.25), 2 * np.pi * (r + 0.5), 1)
    # circle as a long arc (280 degrees) and a short one; the middle control points are NOT at the middle of their
    # arcs (10 % and 80 % of the span): a three-point arc is defined by any point between its ends
    a0, a1 = 0.0, np.deg2rad(280.0)
    V = np.array([ang(a0), ang(a0 + 0.1 * (a1 - a0)), ang(a1), ang(a1 + 0.8 * (2 * np.pi - a1))])
    out["circle_long_and_short_arc_offcentre_midpoints"] = (V, [("Arc", [0, 1, 2]), ("Arc", [2, 3, 0])], np.pi * r * r, 2 * np.pi * r, 1)
    # a D shape: a 200 degree arc with an off-centre control point closed by a chord
    a1 = np.deg2rad(200.0)
    V = np.array([ang(0.0), ang(0.85 * a1), ang(a1)])
    seg = r * r / 2 * (a1 - np.sin(a1))
    out["D_shape_long_arc_offcentre_midpoint"] = (V, [("Arc", [0, 1, 2]), ("Line", [2, 0])], seg, r * a1 + 2 * r * np.sin(a1 / 2), 1)
    return out


def build_arc_path(V, ents):
    from trimesh.path import Path2D
    from trimesh.path.entities import Arc, Line

    es = []
    for kind, pts in ents:
        if kind == "Line":
            es.append(Line(list(pts)))
        elif kind == "Arc":
            es.append(Arc(list(pts)))
        else:
            es.append(Arc(list(pts), closed=True))
    return Path2D(entities=es, vertices=V.copy(), process=False)


def _w_arcs(_):
    t = harness.Tally()
    for name, (V, ents, area, length, bodies) in arc_drawings().items():
        ref = None
        n = len(ents)
        for dirs in itertools.product((False, True), repeat=n):
            for perm in itertools.permutations(range(n)):
                es = [(ents[p][0], ents[p][1][::-1] if dirs[p] else ents[p][1]) for p in perm]
                case = {"family": "arcs", "drawing": name, "entities": [[k, list(map(int, v))] for k, v in es]}
                t.evaluations += 1
                t.nontrivial_count += 1
                try:
                    p = build_arc_path(V, es)
                    got = (len(p.paths), int(p.body_count), bool(p.is_closed), float(p.area), float(p.length), sorted(len(pg.interiors) for pg in p.polygons_full))
                except Exception as e:
                    t.violation(f"arc path raises {type(e).__name__} [{name}]", case, {"exc": repr(e)[:300]})
                    continue
                if ref is None:
                    ref = got
                    # sanity against the smooth values (discretisation error only)
                    if abs(got[3] - area) > 2e-2 * area or got[1] != bodies or not got[2]:
                        t.violation(f"arc drawing: regions are not those of the drawing [{name}]", case, {"got": got, "area": area})
                elif got[:3] != ref[:3] or got[5] != ref[5] or abs(got[3] - ref[3]) > 1e-9 * ref[3] or abs(got[4] - ref[4]) > 1e-9 * ref[4]:
                    t.violation(f"arc drawing: regions depend on entity order / direction [{name}]", case, {"got": got, "reference": ref})
    return t


def _w_arc_transform(_):
    """Arc drawings: (reads)? -> apply_transform(similarity) -> reads.  Differential oracle:
    the regions must not depend on what was read before the transform, and follow the scaling law."""
    t = harness.Tally()
    mats = {"scale40": np.diag([40.0, 40.0, 1.0]), "scale_1/40": np.diag([0.025, 0.025, 1.0]), "rot345": M2("rot345"), "similarity": M2("similarity"), "mirror": M2("mirror")}
    for name, (V, ents, area, length, bodies) in arc_drawings().items():
        for mn, M in mats.items():
            sc = np.sqrt(abs(np.linalg.det(M[:2, :2])))
            res = {}
            for rs in ("none", "discrete", "everything"):
                case = {"family": "arc_transform", "drawing": name, "matrix": mn, "reads": rs}
                t.evaluations += 1
                t.nontrivial_count += 1
                try:
                    p = build_arc_path(V, ents)
                    base = (float(p.area), float(p.length)) if rs == "everything" else None
                    for r in READSETS[rs]:
                        getattr(p, r)
                    p.apply_transform(M.copy())
                    res[rs] = (len(p.paths), int(p.body_count), float(p.area), float(p.length), sorted(len(pg.interiors) for pg in p.polygons_full))
                except Exception as e:
                    t.violation(f"arc path: apply_transform then reading raises {type(e).__name__} [reads: {rs}]", case, {"exc": repr(e)[:300]})
            if len(res) == 3:
                a = res["none"]
                for rs in ("discrete", "everything"):
                    b = res[rs]
                    if a[:2] != b[:2] or a[4] != b[4] or abs(a[2] - b[2]) > 1e-9 * a[2] or abs(a[3] - b[3]) > 1e-9 * a[3]:
                        t.violation(f"arc path: regions after apply_transform[{mn}] depend on what was read before", {"family": "arc_transform", "drawing": name, "matrix": mn, "reads": rs}, {"read_first": b, "transform_first": a})
                        break
                p0 = build_arc_path(V, ents)
                a0, l0 = float(p0.area), float(p0.length)
                if abs(a[2] - sc * sc * a0) > 1e-9 * sc * sc * a0 or abs(a[3] - sc * l0) > 1e-9 * sc * l0:
                    t.violation(f"arc path: area / length after apply_transform[{mn}] do not follow the scaling law", {"family": "arc_transform", "drawing": name, "matrix": mn, "reads": "none"}, {"got": a, "area0": a0, "length0": l0, "scale": sc})
    return t


def _w_transform(task):
    name, max_entities = task
    import trimesh
    from trimesh.path import Path2D

    t = harness.Tally()
    loops = DRAWINGS[name]
    want0 = expected(loops)
    # a few structurally different variants: first, last and middle of the enumeration with few entities
    vs = list(itertools.islice(variants(loops, max_entities), 0, None, 37))[:12]
    for ents in vs:
        for rs, reads in READSETS.items():
            for mn in ("rot90", "rot345", "mirror", "scale2", "similarity", "translation"):
                M = M2(mn)
                s = np.sqrt(abs(np.linalg.det(M[:2, :2])))
                case = {"family": "transform", "drawing": name, "entities": ents, "reads": rs, "matrix": mn}
                t.evaluations += 1
                t.nontrivial_count += 1
                try:
                    p = build_path(loops, ents)
                    for r in reads:
                        getattr(p, r)
                    p.apply_transform(M.copy())
                    got = read_regions(p)
                    fresh = Path2D(entities=[type(e)(points=e.points.copy()) for e in build_path(loops, ents).entities], vertices=np.array(p.vertices).copy(), process=False)
                    wantf = read_regions(fresh)
                except Exception as e:
                    t.violation(f"apply_transform then reading raises {type(e).__name__} [reads: {rs}]", case, {"exc": repr(e)[:300]})
                    continue
                want = {"n_closed": want0["n_closed"], "body_count": want0["body_count"], "shells": sorted((a * s * s, h, b * s * s) for a, h, b in want0["shells"]), "area": want0["area"] * s * s, "length": want0["length"] * s}
                bad = regions_equal(got, want, 1e-9)
                if bad:
                    t.violation(f"after apply_transform[{mn}] {bad} does not follow the scaling law [reads before: {rs}]", case, {"got": got, "want": want})
                    continue
                bad = regions_equal(got, wantf, 1e-9)
                if bad:
                    t.violation(f"after apply_transform[{mn}] {bad} differs from a path freshly built from the transformed vertices [reads before: {rs}]", case, {"got": got, "fresh": wantf})
                    continue
                # discretised curves must be at the transformed positions
                d1 = np.vstack([np.asarray(d) for d in p.discrete])
                d2 = np.vstack([np.asarray(d) for d in fresh.discrete])
                if d1.shape != d2.shape or np.abs(d1 - d2).max() > 1e-9 * (1 + np.abs(d2).max()):
                    # a closed curve may start at another vertex (the repeated closing point differs): compare as point sets
                    if set(map(tuple, (np.round(d1, 7) + 0.0).tolist())) != set(map(tuple, (np.round(d2, 7) + 0.0).tolist())):
                        t.violation(f"after apply_transform[{mn}] the discrete curves are not at the transformed positions [reads before: {rs}]", case, {})
    return t


def _w_edit_then_transform(task):
    """reads -> vertices edited outside apply_transform -> apply_transform -> reads: everything must describe
    the edited and transformed drawing (scaling law with both factors)."""
    name, max_entities = task
    t = harness.Tally()
    loops = DRAWINGS[name]
    want0 = expected(loops)
    vs = list(itertools.islice(variants(loops, max_entities), 0, None, 53))[:4]
    edits = {
        "assign 3x": (3.0, lambda p: setattr(p, "vertices", np.asarray(p.vertices) * 3.0)),
        "in place 0.5x": (0.5, lambda p: p.vertices.__imul__(0.5)),
    }
    for ents in vs:
        for rs in ("discrete", "area", "everything"):
            for en, (f, edit) in edits.items():
                for mn in ("rot345", "scale2", "translation"):
                    M = M2(mn)
                    s_ = np.sqrt(abs(np.linalg.det(M[:2, :2]))) * f
                    case = {"family": "edit_then_transform", "drawing": name, "entities": ents, "reads": rs, "edit": en, "matrix": mn}
                    t.evaluations += 1
                    t.nontrivial_count += 1
                    try:
                        p = build_path(loops, ents)
                        for r in READSETS[rs]:
                            getattr(p, r)
                        edit(p)
                        p.apply_transform(M.copy())
                        got = read_regions(p)
                    except Exception as e:
                        t.violation(f"read, edit vertices, apply_transform, read raises {type(e).__name__}", case, {"exc": repr(e)[:300]})
                        continue
                    want = {"n_closed": want0["n_closed"], "body_count": want0["body_count"], "shells": sorted((a * s_ * s_, h, b * s_ * s_) for a, h, b in want0["shells"]), "area": want0["area"] * s_ * s_, "length": want0["length"] * s_}
                    bad = regions_equal(got, want, 1e-9)
                    if bad:
                        t.violation(f"after reads, an edit of the vertices and apply_transform the {bad} is not that of the edited, transformed drawing [reads before: {rs}]", case, {"got": got, "want": want})
    return t


NOTCHED = {
    # a drawing with one very short edge (0.0045 at unit size) next to long ones
    "square_with_a_tiny_chamfer": [[(0, 0), (6, 0), (6, 4), (0.004, 4), (0, 3.998)]],
}


def _w_construction_scale(_):
    """The same drawing constructed (default processing: vertex merging) at very different sizes must give the
    same regions up to the scaling law: tolerances of the construction are relative to the drawing."""
    from trimesh.path import Path2D
    from trimesh.path.entities import Line

    t = harness.Tally()
    fam = dict(DRAWINGS)
    fam.update(NOTCHED)
    for name, loops in fam.items():
        want0 = expected(loops)
        V = np.array([p for lp in loops for p in lp], dtype=float)
        ents = []
        k = 0
        for lp in loops:
            idx = list(range(k, k + len(lp)))
            ents.append(idx + [idx[0]])
            k += len(lp)
        for sc in (1.0, 1e-3, 1e-5, 1e3):
            for shift in ((0.0, 0.0), (0.25, -0.125)):
                case = {"family": "construction_scale", "drawing": name, "scale": sc, "shift": list(shift)}
                t.evaluations += 1
                t.nontrivial_count += 1
                try:
                    p = Path2D(entities=[Line(e) for e in ents], vertices=V * sc + np.array(shift) * sc)
                    got = read_regions(p)
                except Exception as e:
                    t.violation(f"constructing a drawing of size {sc:g} raises {type(e).__name__}", case, {"exc": repr(e)[:300]})
                    continue
                want = {"n_closed": want0["n_closed"], "body_count": want0["body_count"], "shells": sorted((a * sc * sc, h, b * sc * sc) for a, h, b in want0["shells"]), "area": want0["area"] * sc * sc, "length": want0["length"] * sc}
                bad = _regions_equal_rel(got, want, 1e-9)
                if bad:
                    t.violation(f"a drawing constructed at size {sc:g} has another {bad} than the same drawing at unit size", case, {"got": got, "want": want})
    return t


def _regions_equal_rel(got, want, tol):
    """regions_equal with purely relative tolerances (the drawings here are tiny or huge)."""
    if got["n_closed"] != want["n_closed"] or got["body_count"] != want["body_count"] or len(got["shells"]) != len(want["shells"]):
        return "number of closed paths / shells"
    for a, b in zip(got["shells"], want["shells"]):
        if a[1] != b[1] or abs(a[0] - b[0]) > tol * b[0] or abs(a[2] - b[2]) > tol * b[2]:
            return "shell / hole structure or area"
    if abs(got["area"] - want["area"]) > tol * want["area"]:
        return "area"
    if abs(got["length"] - want["length"]) > tol * want["length"]:
        return "length"
    return None


def _w_export(task):
    name, max_entities = task
    import trimesh
    from trimesh.path import Path2D
    from trimesh.path.exchange.misc import dict_to_path

    t = harness.Tally()
    loops = DRAWINGS[name]
    want = expected(loops)
    vs = list(itertools.islice(variants(loops, max_entities), 0, None, 53))[:8]
    for ents in vs:
        for ft in ("dxf", "svg", "dict"):
            case = {"family": "export", "drawing": name, "entities": ents, "format": ft}
            t.evaluations += 1
            t.nontrivial_count += 1
            try:
                p = build_path(loops, ents)
                p.area  # read something first: exporting must not depend on it
                data = p.export(file_type=ft)
                if ft == "dict":
                    r = Path2D(**dict_to_path(data))
                else:
                    b = data if isinstance(data, bytes) else data.encode("utf-8")
                    r = trimesh.load_path(io.BytesIO(b), file_type=ft)
                got = read_regions(r)
            except Exception as e:
                t.violation(f"export / re-import raises {type(e).__name__} [{ft}]", case, {"exc": repr(e)[:300]})
                continue
            bad = regions_equal(got, want, 1e-6)
            if bad:
                t.violation(f"export / re-import through {ft}: {bad} changes", case, {"got": got, "want": want})
    return t


# ---------------------------------------------------------------------------
# DXF polylines with bulged segments (the form other programs write; trimesh's exporter writes ARC entities)
# ---------------------------------------------------------------------------

BULGE_SHAPES = {
    "triangle": [(0, 0), (4, 0), (1, 3)],
    "quad": [(0, 0), (4, 0), (4, 3), (0, 3)],
    "pentagon": [(0, 0), (4, 0), (5, 2), (2, 4), (-1, 2)],
    "quad_clockwise": [(0, 3), (4, 3), (4, 0), (0, 0)],
}
BULGES = (0.0, 0.3, -0.2)


def dxf_polyline(verts, bulges):
    out = ["0", "SECTION", "2", "HEADER", "9", "$INSUNITS", "70", "1", "0", "ENDSEC", "0", "SECTION", "2", "ENTITIES", "0", "LWPOLYLINE", "8", "0", "90", str(len(verts)), "70", "1"]
    for (x, y), b in zip(verts, bulges):
        out += ["10", repr(float(x)), "20", repr(float(y))]
        if b != 0:
            out += ["42", repr(float(b))]
    out += ["0", "ENDSEC", "0", "EOF"]
    return ("\n".join(out) + "\n").encode()


def bulge_area(verts, bulges):
    """Exact enclosed area: polygon (shoelace) plus the signed circular segment of every bulged side
    (DXF: included angle 4 atan(b), counter-clockwise from vertex i to i+1 when b > 0)."""
    V = np.array(verts, dtype=float)
    n = len(V)
    A = 0.5 * sum(V[i][0] * V[(i + 1) % n][1] - V[(i + 1) % n][0] * V[i][1] for i in range(n))
    for i, b in enumerate(bulges):
        if b == 0:
            continue
        c = np.linalg.norm(V[(i + 1) % n] - V[i])
        th = 4 * np.arctan(abs(b))
        r = c / (2 * np.sin(th / 2))
        A += np.sign(b) * 0.5 * r * r * (th - np.sin(th))
    return abs(A)


def check_bulge(t, sname, bl):
    import trimesh

    vs = BULGE_SHAPES[sname]
    nb = sum(1 for b in bl if b != 0)
    cls = "no bulge" if nb == 0 else ("every side bulged" if nb == len(bl) else ("exactly one straight side" if nb == len(bl) - 1 else "straight and bulged sides"))
    case = {"family": "dxf_bulge", "shape": sname, "bulges": list(bl)}
    t.evaluations += 1
    t.nontrivial_count += 1
    try:
        p = trimesh.load_path(io.BytesIO(dxf_polyline(vs, bl)), file_type="dxf")
        want = bulge_area(vs, bl)
        n_reg = len(p.polygons_full)
        if n_reg != 1 or not p.is_closed:
            t.violation(f"DXF polyline with bulges: the closed boundary is not rebuilt as one region [{cls}]", case, {"regions": n_reg, "closed": bool(p.is_closed)})
        elif abs(float(p.area) - want) > 2e-2 * abs(shoelace([(Fr(x), Fr(y)) for x, y in vs])):  # arcs are discretised: 2% of the base polygon, as for the other arc drawings
            t.violation(f"DXF polyline with bulges: area differs from polygon plus circular segments [{cls}]", case, {"got": float(p.area), "want": want})
    except Exception as e:
        t.violation(f"DXF polyline with bulges: loading / reading regions raises {type(e).__name__} [{cls}]", case, {"exc": repr(e)[:300]})


def _w_bulge(sname):
    t = harness.Tally()
    for bl in itertools.product(BULGES, repeat=len(BULGE_SHAPES[sname])):
        check_bulge(t, sname, bl)
    return t


def _run(task):
    return task[0](task[1])


def replay(case):
    t = harness.Tally()
    fam = case["family"]
    if fam == "variant":
        loops = DRAWINGS[case["drawing"]]
        want = expected(loops)
        try:
            got = read_regions(build_path(loops, case["entities"]))
            bad = regions_equal(got, want)
            if bad:
                t.violation(f"polygonal path split into entities: {bad} differs from the exact value [{case['drawing']}]", case, {"got": got, "want": want})
        except Exception as e:
            t.violation(f"reading regions raises {type(e).__name__} [{len(case['entities'])} entities]", case, {"exc": repr(e)[:300]})
    elif fam == "arcs":
        t.merge(_w_arcs(None))
    elif fam == "arc_transform":
        t.merge(_w_arc_transform(None))
    elif fam == "transform":
        t.merge(_w_transform((case["drawing"], 5)))
        t.merge(_w_transform((case["drawing"], 4)))
    elif fam == "edit_then_transform":
        t.merge(_w_edit_then_transform((case["drawing"], 5)))
        t.merge(_w_edit_then_transform((case["drawing"], 4)))
    elif fam == "construction_scale":
        t.merge(_w_construction_scale(None))
    elif fam == "dxf_bulge":
        check_bulge(t, case["shape"], tuple(case["bulges"]))
    else:
        t.merge(_w_export((case["drawing"], 5)))
        t.merge(_w_export((case["drawing"], 4)))
    return [(k, d) for k, c, d in t.violations]


def main(run):
    tier = run.tier
    maxe = 4 if tier == "quick" else 5
    tasks = []
    for name in DRAWINGS:
        nsl = 32 if len(DRAWINGS[name]) > 1 else 8
        # quick: drawings with three loops are enumerated up to 3 entities (one per loop, all orders / directions / start vertices)
        me = maxe if (tier != "quick" or len(DRAWINGS[name]) < 3) else 3
        for sl in range(nsl):
            tasks.append((_w_variants, (name, me, sl, nsl)))
        tasks.append((_w_transform, (name, maxe)))
        tasks.append((_w_edit_then_transform, (name, maxe)))
        tasks.append((_w_export, (name, maxe)))
    tasks.append((_w_arcs, None))
    tasks.append((_w_arc_transform, None))
    tasks.append((_w_construction_scale, None))
    tasks += [(_w_bulge, sname) for sname in BULGE_SHAPES]
    run.log(f"{len(tasks)} tasks, <= {maxe} entities")
    res = harness.pmap(_run, tasks)
    run.merge(res)
    cov = {
        "exhaustive": True,
        "max_entities": maxe,
        "drawings": list(DRAWINGS) + list(arc_drawings()),
        "rule": "7 polygonal drawings: every cut set of every loop x every direction assignment x every permutation of the entity list with at most the stated number of entities, exact Fraction area / nesting oracle; 4 arc drawings: every direction x permutation, invariance; (read set) -> apply_transform(6 similarities) -> read against scaling law and a freshly built path; export -> re-import through dxf, svg, dict; hand-written DXF LWPOLYLINE of 4 closed shapes x every bulge pattern over {0, 0.3, -0.2}: one closed region, area = polygon + circular segments to 2% of the base polygon (arcs are discretised)",
    }
    return run.finish(cov, assumptions=["exactness only for polygonal input; arcs: invariance between variants and 2% agreement with the smooth area"])
