"""
C12 - accelerated ray and proximity queries equal exhaustive evaluation.

Engine E2: lattice meshes (the C11 family + a coarse tilted torus) x scales {1, 1e-2, 1e2}
and a far translation x a complete grid of ray origins (inside and outside) x 32
directions, both ray engines, single and multiple hits; query points on a grid for
containment / closest point / signed distance / nearest vertex.  Oracle: Moeller-Trumbore
and point-triangle distance over ALL triangles; a case is judged only if it is in general
position by a fixed margin (counted), as the property states.
"""

import itertools

import numpy as np

from mc.core import harness
from mc.props.c11_section import mesh_family as c11_family

LEVEL = "exploration"

OFFSET = np.array([0.137, 0.291, 0.419])


def torus(nu=6, nv=5, R=3.0, r=1.2):
    V = []
    for i in range(nu):
        for j in range(nv):
            a, b = 2 * np.pi * i / nu, 2 * np.pi * j / nv
            V.append([(R + r * np.cos(b)) * np.cos(a), (R + r * np.cos(b)) * np.sin(a), r * np.sin(b)])
    V = np.array(V)
    F = []
    for i in range(nu):
        for j in range(nv):
            a, b, c, d = i * nv + j, ((i + 1) % nu) * nv + j, ((i + 1) % nu) * nv + (j + 1) % nv, i * nv + (j + 1) % nv
            F += [[a, b, c], [a, c, d]]
    # tilt so that no face is axis aligned
    ang = 0.37
    Rm = np.array([[1, 0, 0], [0, np.cos(ang), -np.sin(ang)], [0, np.sin(ang), np.cos(ang)]]) @ np.array([[np.cos(0.61), -np.sin(0.61), 0], [np.sin(0.61), np.cos(0.61), 0], [0, 0, 1]])
    return V @ Rm.T + [4.0, 4.0, 2.0], np.array(F)


def families():
    fam = {k: (np.asarray(v, dtype=float), np.asarray(f)) for k, (v, f) in c11_family().items() if k in ("tetrahedron", "box", "octahedron", "L_prism", "square_ring", "two_boxes")}
    fam["torus_coarse"] = torus()
    # thin slab: far triangles with a near vertex
    fam["thin_slab"] = (np.array([[0, 0, 0], [8, 0, 0], [8, 8, 0], [0, 8, 0], [0, 0, 0.25], [8, 0, 0.25], [8, 8, 0.25], [0, 8, 0.25]], dtype=float),
                        np.array([[0, 2, 1], [0, 3, 2], [4, 5, 6], [4, 6, 7], [0, 1, 5], [0, 5, 4], [1, 2, 6], [1, 6, 5], [2, 3, 7], [2, 7, 6], [3, 0, 4], [3, 4, 7]]))
    return fam


VARIANTS = {"unit": (1.0, np.zeros(3)), "scale_0.01": (0.01, np.zeros(3)), "scale_100": (100.0, np.zeros(3)), "far_translation": (1.0, np.array([1000.0, 0, 0]))}


def directions():
    d = []
    for v in itertools.product((-1, 0, 1), repeat=3):
        if any(v):
            d.append(v)
    d += [(1, 2, 3), (-2, 1, 3), (3, -1, 2), (1, -3, -2), (-1, 2, -3), (2, 3, -1)]
    return np.array(d, dtype=float)


# ---------------------------------------------------------------------------
# brute-force oracles
# ---------------------------------------------------------------------------


def moller_trumbore(orig, dirn, tris):
    """All rays x all triangles: t, u, v, det (unit directions).  Shapes (R, T)."""
    v0, v1, v2 = tris[:, 0], tris[:, 1], tris[:, 2]
    e1, e2 = v1 - v0, v2 - v0
    p = np.cross(dirn[:, None, :], e2[None, :, :])
    det = np.einsum("tk,rtk->rt", e1, p)
    with np.errstate(divide="ignore", invalid="ignore"):
        inv = 1.0 / det
        tv = orig[:, None, :] - v0[None, :, :]
        u = np.einsum("rtk,rtk->rt", tv, p) * inv
        q = np.cross(tv, e1[None, :, :])
        v = np.einsum("rk,rtk->rt", dirn, q) * inv
        t = np.einsum("tk,rtk->rt", e2, q) * inv
    return t, u, v, det


def closest_on_tris(P, tris):
    """Brute force: for each point the distance to every triangle, (n, T) distances and closest points."""
    P = np.asarray(P, dtype=float)
    n, T = len(P), len(tris)
    best_d = np.full((n, T), np.inf)
    best_p = np.zeros((n, T, 3))
    for k, tri in enumerate(tris):
        a, b, c = tri
        nrm = np.cross(b - a, c - a)
        nn = np.dot(nrm, nrm)
        cand_p = []
        cand_d = []
        if nn > 0:
            w = P - a
            g = np.dot(np.cross(b - a, w), nrm) / nn
            bt = np.dot(np.cross(w, c - a), nrm) / nn
            al = 1 - g - bt
            inside = (al >= 0) & (bt >= 0) & (g >= 0)
            proj = P - np.outer(np.dot(w, nrm) / nn, nrm)
            d = np.where(inside, np.linalg.norm(P - proj, axis=1), np.inf)
            cand_p.append(proj)
            cand_d.append(d)
        for u_, v_ in ((a, b), (b, c), (c, a)):
            e = v_ - u_
            tt = np.clip(np.dot(P - u_, e) / np.dot(e, e), 0, 1)
            q = u_ + tt[:, None] * e
            cand_p.append(q)
            cand_d.append(np.linalg.norm(P - q, axis=1))
        cand_d = np.array(cand_d)
        cand_p = np.array(cand_p)
        i = cand_d.argmin(axis=0)
        best_d[:, k] = cand_d[i, np.arange(n)]
        best_p[:, k] = cand_p[i, np.arange(n)]
    return best_d, best_p


# ---------------------------------------------------------------------------


def ray_grid(V, tier):
    lo, hi = V.min(axis=0), V.max(axis=0)
    size = (hi - lo).max()
    n = 4 if tier == "quick" else 6
    axes = [np.linspace(lo[k] - 0.3 * size, hi[k] + 0.3 * size, n) for k in range(3)]
    g = np.array(list(itertools.product(*axes)))
    return g + OFFSET * size / 17.0


def check_mesh(t, name, V0, F, vname, tier):
    import trimesh

    sc, tr = VARIANTS[vname]
    V = V0 * sc + tr
    size = float((V.max(axis=0) - V.min(axis=0)).max())
    mag = float(np.abs(V).max())
    tris = V[F]
    m = trimesh.Trimesh(V.copy(), F.copy(), process=False)
    watertight = name not in ()
    O = ray_grid(V, tier)
    D = directions()
    D = D / np.linalg.norm(D, axis=1)[:, None]
    orig = np.repeat(O, len(D), axis=0)
    dirn = np.tile(D, (len(O), 1))
    tt, uu, vv, det = moller_trumbore(orig, dirn, tris)
    ww = 1 - uu - vv
    mb = 1e-4
    mt = 1e-4 * size
    par = np.abs(det) < 1e-9 * size * size
    hit = (~par) & (tt >= mt) & (uu >= mb) & (vv >= mb) & (ww >= mb)
    miss = par | (tt <= -mt) | (uu <= -mb) | (vv <= -mb) | (ww <= -mb)
    # parallel rays in the triangle plane are ambiguous: out of domain if the origin is near the plane
    nrm = np.cross(tris[:, 1] - tris[:, 0], tris[:, 2] - tris[:, 0])
    nrm = nrm / np.linalg.norm(nrm, axis=1)[:, None]
    dist_plane = np.abs(np.einsum("rtk,tk->rt", orig[:, None, :] - tris[None, :, 0, :], nrm))
    amb = (~hit & ~miss) | (par & (dist_plane < mt))
    # two hits at nearly the same distance (ray through an edge region within margin is already excluded);
    # also exclude rays whose consecutive hits are closer than the margin (multi-hit offset of embree)
    in_domain = ~amb.any(axis=1)
    case0 = {"mesh": name, "variant": vname}
    t.stats[f"rays_in_domain[{vname}]"] += int(in_domain.sum())
    t.stats[f"rays_out_of_domain[{vname}]"] += int((~in_domain).sum())
    want_sets = [set(np.nonzero(hit[r])[0].tolist()) for r in range(len(orig))]
    want_first = np.array([(-1 if not hit[r].any() else int(np.where(hit[r], tt[r], np.inf).argmin())) for r in range(len(orig))])
    # separation between successive hits
    sep_ok = np.ones(len(orig), dtype=bool)
    for r in np.nonzero(in_domain)[0]:
        ts = np.sort(tt[r][hit[r]])
        if len(ts) > 1 and np.diff(ts).min() < 10 * mt:
            sep_ok[r] = False
    engines = {"rtree": trimesh.ray.ray_triangle.RayMeshIntersector(m)}
    try:
        from trimesh.ray.ray_pyembree import RayMeshIntersector as Emb

        engines["embree"] = Emb(m)
    except Exception:
        pass
    firsts = {}
    # what the engines are given: the same rays with direction vectors of very different lengths
    # (a ray is the same ray whatever the length of its direction vector); the oracle keeps unit directions
    lengths = np.array([1.0, 1e4, 1e-3, 7.5])[np.arange(len(dirn)) % 4]
    unit_dirn = dirn
    dirn = dirn * lengths[:, None]
    for en, eng in engines.items():
        cls = f"{en}; {vname}"
        ltol = (1e-9 if en == "rtree" else 2e-5) * max(size, mag)
        t.evaluations += int(in_domain.sum())
        # multiple hits
        try:
            loc, ir, it = eng.intersects_location(orig, dirn, multiple_hits=True)
            ir, it, loc = np.asarray(ir), np.asarray(it), np.asarray(loc)
        except Exception as e:
            t.violation(f"intersects_location raises {type(e).__name__} [{cls}]", dict(case0, engine=en), {"exc": repr(e)[:200]})
            continue
        got_sets = [set() for _ in range(len(orig))]
        for r, k in zip(ir.tolist(), it.tolist()):
            got_sets[r].add(k)
        reported = False
        for r in np.nonzero(in_domain & sep_ok)[0]:
            if got_sets[r] != want_sets[r]:
                missed = want_sets[r] - got_sets[r]
                kind = "misses a triangle crossed through its interior" if missed else "reports a triangle the ray does not cross"
                t.violation(f"intersects_location(multiple_hits): {kind} [{cls}]", dict(case0, engine=en, origin=orig[r], direction=dirn[r]), {"got": sorted(got_sets[r]), "want": sorted(want_sets[r])})
                reported = True
                break
        if not reported and len(loc):
            # every reported hit (in-domain rays) lies on the ray ahead of the origin and on the reported triangle
            sel = in_domain[ir]
            if sel.any():
                o, d = orig[ir[sel]], unit_dirn[ir[sel]]
                rel = loc[sel] - o
                along = np.einsum("ij,ij->i", rel, d)
                off = np.linalg.norm(rel - along[:, None] * d, axis=1)
                dtri = np.array([closest_on_tris(loc[sel][i : i + 1], tris[[it[sel][i]]])[0][0, 0] for i in range(min(len(o), 400))])
                if (along < -ltol).any() or off.max() > ltol or dtri.max() > ltol:
                    t.violation(f"intersects_location: a hit is not on the ray ahead of the origin and on the reported triangle [{cls}]", dict(case0, engine=en), {"behind": float(along.min()), "off_ray": float(off.max()), "off_triangle": float(dtri.max())})
        # first hit
        try:
            f1 = np.asarray(eng.intersects_first(orig, dirn))
            firsts[en] = f1
            bad = np.nonzero(in_domain & (f1 != want_first))[0]
            # a tie in t between two triangles cannot occur in the domain (margins)
            if len(bad):
                r = bad[0]
                t.violation(f"intersects_first: not the nearest crossed triangle [{cls}]", dict(case0, engine=en, origin=orig[r], direction=dirn[r]), {"got": int(f1[r]), "want": int(want_first[r]), "n_bad": int(len(bad))})
            i1, r1 = eng.intersects_id(orig, dirn, multiple_hits=False)[:2]
            got1 = np.full(len(orig), -1)
            got1[np.asarray(r1)] = np.asarray(i1)
            bad = np.nonzero(in_domain & (got1 != want_first))[0]
            if len(bad):
                r = bad[0]
                t.violation(f"intersects_id(multiple_hits=False): not the nearest crossed triangle [{cls}]", dict(case0, engine=en, origin=orig[r], direction=dirn[r]), {"got": int(got1[r]), "want": int(want_first[r]), "n_bad": int(len(bad))})
            l1, lr1, lt1 = eng.intersects_location(orig, dirn, multiple_hits=False)
            gotl = np.full(len(orig), -1)
            gotl[np.asarray(lr1)] = np.asarray(lt1)
            bad = np.nonzero(in_domain & (gotl != want_first))[0]
            if len(bad):
                r = bad[0]
                t.violation(f"intersects_location(multiple_hits=False): not the nearest crossed triangle [{cls}]", dict(case0, engine=en, origin=orig[r], direction=dirn[r]), {"got": int(gotl[r]), "want": int(want_first[r]), "n_bad": int(len(bad))})
            a1 = np.asarray(eng.intersects_any(orig, dirn))
            bad = np.nonzero(in_domain & (a1 != (want_first >= 0)))[0]
            if len(bad):
                r = bad[0]
                t.violation(f"intersects_any: differs from exhaustive evaluation [{cls}]", dict(case0, engine=en, origin=orig[r], direction=dirn[r]), {"got": bool(a1[r])})
        except Exception as e:
            t.violation(f"first-hit query raises {type(e).__name__} [{cls}]", dict(case0, engine=en), {"exc": repr(e)[:200]})
    t.nontrivial_count += int((in_domain & (want_first >= 0)).sum())
    # ------------------------------------------------------------------ points
    P = ray_grid(V, "thorough" if tier == "thorough" else "quick")
    P = np.vstack([P, V.mean(axis=0) + OFFSET * size / 29.0, P[:3]])  # a repeated point on purpose
    dmat, pmat = closest_on_tris(P, tris)
    dmin = dmat.min(axis=1)
    t.evaluations += len(P)
    # exact inside/outside for points a margin away from the surface: parity along three directions (oracle)
    far = dmin > 1e-4 * size
    par_votes = []
    for dvec in (np.array([1.0, 0.123, 0.0456]), np.array([-0.31, 1.0, 0.21]), np.array([0.17, -0.29, 1.0])):
        dv = dvec / np.linalg.norm(dvec)
        t2, u2, v2, det2 = moller_trumbore(P, np.tile(dv, (len(P), 1)), tris)
        w2 = 1 - u2 - v2
        h2 = (np.abs(det2) > 1e-12) & (t2 > 0) & (u2 > 0) & (v2 > 0) & (w2 > 0)
        amb2 = (np.abs(det2) > 1e-12) & (t2 > -mt) & ((np.abs(u2) < mb) | (np.abs(v2) < mb) | (np.abs(w2) < mb)) & (u2 > -mb) & (v2 > -mb) & (w2 > -mb)
        par_votes.append(np.where(amb2.any(axis=1), -1, h2.sum(axis=1) % 2))
    par_votes = np.array(par_votes)
    inside = np.full(len(P), -1)
    for i in range(len(P)):
        vals = [v for v in par_votes[:, i] if v >= 0]
        if len(vals) >= 2 and len(set(vals)) == 1:
            inside[i] = vals[0]
    if name != "open_box":
        for en, eng in engines.items():
            try:
                c = np.asarray(eng.contains_points(P))
                bad = np.nonzero(far & (inside >= 0) & (c != (inside == 1)))[0]
                if len(bad):
                    i = bad[0]
                    t.violation(f"contains_points: differs from the exact inside/outside classification [{en}; {vname}]", dict(case0, engine=en, point=P[i]), {"got": bool(c[i]), "want": bool(inside[i] == 1), "n_bad": int(len(bad))})
            except Exception as e:
                t.violation(f"contains_points raises {type(e).__name__} [{en}; {vname}]", dict(case0, engine=en), {"exc": repr(e)[:200]})
        # points (off the surface) whose parity ray along the library's fixed direction touches a mesh edge or
        # vertex, so that contains_points has to take its disagreement / retry path; queried in one array together
        # with points outside of the bounding box (culled first) in every position: before, between and after
        dfix = np.array([0.4395064455, 0.617598629942, 0.652231566745])
        edges = np.unique(np.sort(np.vstack([F[:, [0, 1]], F[:, [1, 2]], F[:, [2, 0]]]), axis=1), axis=0)
        targets = np.vstack([V[edges].mean(axis=1), V[edges[:, 0]] * 0.75 + V[edges[:, 1]] * 0.25, V])
        G = np.vstack([targets - sgn * sfrac * size * dfix for sgn in (1.0, -1.0) for sfrac in (0.23, 0.61, 1.37)])
        lo, hi = V.min(axis=0), V.max(axis=0)
        G = G[((G > lo) & (G < hi)).all(axis=1)]
        if len(G):
            dG, _ = closest_on_tris(G, tris)
            G = G[dG.min(axis=1) > 1e-3 * size]
        if len(G):
            votes = []
            for dvec in (np.array([1.0, 0.123, 0.0456]), np.array([-0.31, 1.0, 0.21]), np.array([0.17, -0.29, 1.0]), np.array([-0.57, -0.43, 0.71])):
                dv = dvec / np.linalg.norm(dvec)
                t2, u2, v2, det2 = moller_trumbore(G, np.tile(dv, (len(G), 1)), tris)
                w2 = 1 - u2 - v2
                h2 = (np.abs(det2) > 1e-12) & (t2 > 0) & (u2 > 0) & (v2 > 0) & (w2 > 0)
                amb2 = (np.abs(det2) > 1e-12) & (t2 > -mt) & ((np.abs(u2) < mb) | (np.abs(v2) < mb) | (np.abs(w2) < mb)) & (u2 > -mb) & (v2 > -mb) & (w2 > -mb)
                votes.append(np.where(amb2.any(axis=1), -1, h2.sum(axis=1) % 2))
            votes = np.array(votes)
            gin = np.full(len(G), -1)
            for i in range(len(G)):
                vals = [v for v in votes[:, i] if v >= 0]
                if len(vals) >= 3 and len(set(vals)) == 1:
                    gin[i] = vals[0]
            outside_box = np.array([hi + size, lo - 2 * size, [hi[0] + size, lo[1], lo[2]]])
            t.evaluations += len(G)
            t.nontrivial_count += int((gin >= 0).sum())
            for en, eng in engines.items():
                for layout in ("alone", "after points outside of the bounding box", "between points outside of the bounding box"):
                    if layout == "alone":
                        Q, sl = G, slice(0, len(G))
                    elif layout.startswith("after"):
                        Q, sl = np.vstack([outside_box, G]), slice(3, 3 + len(G))
                    else:
                        Q = np.vstack([outside_box[:1], G[: len(G) // 2], outside_box[1:], G[len(G) // 2 :], outside_box[:1]])
                        idx = np.r_[1 : 1 + len(G) // 2, 3 + len(G) // 2 : 3 + len(G)]
                        sl = idx
                    try:
                        c = np.asarray(eng.contains_points(Q))
                        cg = c[sl]
                        rest = np.ones(len(Q), dtype=bool)
                        rest[sl] = False
                        if c[rest].any():
                            t.violation(f"contains_points: a point outside of the bounding box is reported inside [{en}]", dict(case0, engine=en, layout=layout), {})
                        bad = np.nonzero((gin >= 0) & (cg != (gin == 1)))[0]
                        if len(bad):
                            i = bad[0]
                            t.violation(f"contains_points: differs from the exact classification for a point whose parity ray touches an edge or vertex [{en}; {layout}]", dict(case0, engine=en, point=G[i], layout=layout), {"got": bool(cg[i]), "want": bool(gin[i] == 1), "n_bad": int(len(bad))})
                    except Exception as e:
                        t.violation(f"contains_points raises {type(e).__name__} [{en}; grazing rays]", dict(case0, engine=en, layout=layout), {"exc": repr(e)[:200]})
    try:
        cp, cd, ct = m.nearest.on_surface(P)
        cp, cd, ct = np.asarray(cp), np.asarray(cd), np.asarray(ct)
        # the library's absolute merge tolerance (tol.merge = 1e-8) enters the candidate / tie logic
        tol = 1e-9 * max(size, mag) + 1e-7
        if np.abs(cd - dmin).max() > tol:
            i = int(np.abs(cd - dmin).argmax())
            t.violation(f"nearest.on_surface: distance is not the minimum over all triangles [{vname}]", dict(case0, point=P[i]), {"got": float(cd[i]), "want": float(dmin[i])})
        elif np.abs(np.linalg.norm(P - cp, axis=1) - cd).max() > tol:
            t.violation(f"nearest.on_surface: closest point is not at the reported distance [{vname}]", case0, {})
        else:
            on = dmat[np.arange(len(P)), ct]
            if np.abs(on - dmin).max() > tol or np.array([closest_on_tris(cp[i : i + 1], tris[[ct[i]]])[0][0, 0] for i in range(len(P))]).max() > tol:
                t.violation(f"nearest.on_surface: reported triangle is not a minimiser / closest point not on it [{vname}]", case0, {})
        if name != "open_box":
            sd = np.asarray(trimesh.proximity.signed_distance(m, P))
            known = far & (inside >= 0)
            want_sd = np.where(inside == 1, dmin, -dmin)
            if np.abs(sd[known] - want_sd[known]).max() > tol:
                i = np.nonzero(known)[0][int(np.abs(sd[known] - want_sd[known]).argmax())]
                t.violation(f"signed_distance: wrong magnitude or sign (positive inside) [{vname}]", dict(case0, point=P[i]), {"got": float(sd[i]), "want": float(want_sd[i])})
        vd, vi = m.nearest.vertex(P)
        dv_all = np.linalg.norm(P[:, None, :] - V[None, :, :], axis=2)
        if np.abs(np.asarray(vd) - dv_all.min(axis=1)).max() > tol or np.abs(dv_all[np.arange(len(P)), np.asarray(vi)] - dv_all.min(axis=1)).max() > tol:
            t.violation(f"nearest.vertex: not the nearest vertex [{vname}]", case0, {})
    except Exception as e:
        t.violation(f"proximity query raises {type(e).__name__} [{vname}]", case0, {"exc": repr(e)[:300]})


def _w(task):
    name, vname, tier = task
    t = harness.Tally()
    V, F = families()[name]
    harness.seed_everything(0, 1)
    try:
        check_mesh(t, name, V, F, vname, tier)
    except Exception as e:
        import traceback

        t.violation("harness: check crashed", {"mesh": name, "variant": vname}, {"exc": traceback.format_exc()[-600:]})
    t.sample({"mesh": name, "variant": vname, "rays": "grid x 32 directions"}, limit=1)
    return t


def replay(case):
    t = harness.Tally()
    V, F = families()[case["mesh"]]
    harness.seed_everything(0, 1)
    check_mesh(t, case["mesh"], V, F, case["variant"], "thorough")
    check_mesh(t, case["mesh"], V, F, case["variant"], "quick")
    return [(k, d) for k, c, d in t.violations]


def main(run):
    tier = run.tier
    fam = families()
    tasks = [(n, v, tier) for n in fam for v in VARIANTS]
    run.log(f"{len(tasks)} tasks")
    res = harness.pmap(_w, tasks)
    run.merge(res)
    cov = {
        "exhaustive": True,
        "meshes": list(fam),
        "variants": list(VARIANTS),
        "rule": "origin grid (4^3 quick / 6^3 thorough, inside and outside, shifted by a fixed generic offset) x 32 directions x both engines x {multiple hits, first hit (3 entry points), any}; point grid for containment (exact parity by 3 independent directions) plus every point at 3 distances before and behind every edge midpoint, edge quarter point and vertex along the fixed parity direction (grazing rays: the retry path), queried alone, after and between points outside of the bounding box, closest point / distance / triangle, signed distance, nearest vertex; cases are judged only when every triangle is hit or missed by the margin 1e-4 (general position), counted in stats",
    }
    return run.finish(cov, assumptions=["general position margin: barycentrics and ray parameter at least 1e-4 (x size) from their boundaries; successive hits separated by 1e-3 x size for multi-hit queries", "embree works in float32: hit locations compared to 2e-5 x coordinate magnitude"])
