"""
C15 - created shapes and primitives are valid solids with analytic measures.

Engine E2 + E1 (primitive edit histories of depth <= 3).  Creation functions over complete
small parameter grids (section counts from the minimum to 12 and 32, radii / heights,
partial revolution angles, polygons with holes x every triangulation engine, sweep paths)
x placements (identity, 24 rotations, 24 mirrors, a generic rigid transform, `segment=`
forms).  Validity is judged with my own counting (C05 oracle) and signed volume, measures
with exact prism / frustum formulas of the inscribed tessellation, and convergence to the
smooth values.  Primitives: every edit history up to depth 3 must leave a mesh equal to the
mesh of a primitive freshly constructed with the current parameter values.
"""

import itertools

import numpy as np

from mc.core import harness
from mc.props.c05_topology import Topo

LEVEL = "exploration"


def H(lin=None, t=None):
    m = np.eye(4)
    if lin is not None:
        m[:3, :3] = lin
    if t is not None:
        m[:3, 3] = t
    return m


def signed_perms():
    out = []
    for perm in itertools.permutations(range(3)):
        for signs in itertools.product((1, -1), repeat=3):
            m = np.zeros((3, 3))
            for i, (p, s) in enumerate(zip(perm, signs)):
                m[i, p] = s
            out.append(m)
    return out


R345 = np.array([[0.6, -0.8, 0], [0.8, 0.6, 0], [0, 0, 1.0]]) @ np.array([[1.0, 0, 0], [0, 0.6, -0.8], [0, 0.8, 0.6]])


def placements(tier):
    pl = {"none": None, "generic_rigid": H(R345, [1, -2, 3])}
    sp = signed_perms()
    for i, m in enumerate(sp):
        if tier == "thorough" or i % 6 == 1:
            pl[f"{'rotation' if np.linalg.det(m) > 0 else 'mirror'}#{i}"] = H(m, [0.5, 0, -1])
    return pl


def pclass(name):
    return name.split("#")[0]


def solid_check(t, mesh, key, case, expect_volume=None, expect_area=None, rtol=1e-9, bounds=None):
    """Watertight, consistently wound, positive volume by my own counting; optional exact measures."""
    V = np.asarray(mesh.vertices, dtype=float)
    F = np.asarray(mesh.faces)
    topo = Topo([tuple(f) for f in F], len(V))
    if not topo.watertight():
        t.violation(f"{key}: not watertight", case, {"n_faces": len(F)})
        return False
    if not topo.winding():
        t.violation(f"{key}: not consistently wound", case, {})
        return False
    tri = V[F]
    vol = float(np.einsum("ij,ij->i", tri[:, 0], np.cross(tri[:, 1], tri[:, 2])).sum() / 6)
    if vol <= 0:
        t.violation(f"{key}: not a positive-volume solid (wound inwards)", case, {"volume": vol})
        return False
    area = float(np.linalg.norm(np.cross(tri[:, 1] - tri[:, 0], tri[:, 2] - tri[:, 0]), axis=1).sum() / 2)
    if not hasattr(mesh, "primitive") and (abs(float(mesh.volume) - vol) > 1e-9 * vol or abs(float(mesh.area) - area) > 1e-9 * area):
        t.violation(f"{key}: reported volume / area differ from the triangles", case, {"volume": float(mesh.volume), "want": vol})
    if expect_volume is not None and abs(vol - expect_volume) > rtol * expect_volume:
        t.violation(f"{key}: volume differs from the exact value of the tessellated solid", case, {"got": vol, "want": expect_volume})
    if expect_area is not None and abs(area - expect_area) > rtol * expect_area:
        t.violation(f"{key}: area differs from the exact value of the tessellated solid", case, {"got": area, "want": expect_area})
    if bounds is not None:
        b = np.array([V.min(axis=0), V.max(axis=0)])
        if np.abs(b - bounds).max() > 1e-9 * (1 + np.abs(bounds).max()):
            t.violation(f"{key}: bounds differ from the analytic bounds", case, {"got": b, "want": bounds})
    return True


def ngon_area(n, r):
    return n / 2.0 * r * r * np.sin(2 * np.pi / n)


def ngon_perimeter(n, r):
    return n * 2 * r * np.sin(np.pi / n)


# ---------------------------------------------------------------------------
# creation functions
# ---------------------------------------------------------------------------


def _w_creation(task):
    shape, tier = task
    import trimesh
    from trimesh import creation

    t = harness.Tally()
    pls = placements(tier)
    secs = list(range(3, 13)) + [32]
    dims = [0.5, 1.0, 3.0]

    def each_placement(make, key, case, **expect):
        base = None
        for pn, T in pls.items():
            c = dict(case, placement=pn)
            t.evaluations += 1
            t.nontrivial_count += 1
            try:
                m = make(T)
            except Exception as e:
                t.violation(f"{key}: raises {type(e).__name__} [placement {pclass(pn)}]", c, {"exc": repr(e)[:200]})
                continue
            if not solid_check(t, m, f"{key} [placement {pclass(pn)}]", c, **expect):
                continue
            # placement: the solid is the untransformed solid moved by the transform
            V = np.asarray(m.vertices, dtype=float)
            if T is None:
                base = V
            elif base is not None:
                want = base @ T[:3, :3].T + T[:3, 3]
                a = V[np.lexsort(np.round(V, 6).T[::-1])]
                b = want[np.lexsort(np.round(want, 6).T[::-1])]
                if a.shape != b.shape or np.abs(a - b).max() > 1e-6:
                    from scipy.spatial import cKDTree

                    if a.shape != b.shape or cKDTree(want).query(V)[0].max() > 1e-8 * (1 + np.abs(want).max()):
                        t.violation(f"{key}: the solid is not placed by the given transform [placement {pclass(pn)}]", c, {"bounds_got": [V.min(axis=0), V.max(axis=0)], "bounds_want": [want.min(axis=0), want.max(axis=0)]})

    if shape == "box":
        for ext in itertools.product(dims, repeat=3):
            each_placement(lambda T: creation.box(extents=ext, transform=T), "box", {"shape": "box", "extents": ext}, expect_volume=float(np.prod(ext)), expect_area=2 * (ext[0] * ext[1] + ext[1] * ext[2] + ext[0] * ext[2]))
        b = creation.box(bounds=[[1, 2, 3], [2, 4, 7]])
        solid_check(t, b, "box(bounds)", {"shape": "box", "bounds": True}, expect_volume=8.0, bounds=np.array([[1, 2, 3], [2, 4, 7.0]]))
    elif shape == "cylinder":
        for n, r, h in itertools.product(secs, dims, dims):
            each_placement(lambda T: creation.cylinder(radius=r, height=h, sections=n, transform=T), "cylinder", {"shape": "cylinder", "sections": n, "radius": r, "height": h},
                           expect_volume=ngon_area(n, r) * h, expect_area=2 * ngon_area(n, r) + ngon_perimeter(n, r) * h)
        # segment form
        for seg in ([[0, 0, 0], [0, 0, 2]], [[1, 2, 3], [4, 6, 3]], [[0, 0, 5], [0, 0, 1]], [[1, 1, 1], [2, 0, -1]]):
            case = {"shape": "cylinder", "segment": seg}
            t.evaluations += 1
            try:
                m = creation.cylinder(radius=0.5, segment=seg, sections=8)
                L = float(np.linalg.norm(np.subtract(seg[1], seg[0])))
                if solid_check(t, m, "cylinder(segment)", case, expect_volume=ngon_area(8, 0.5) * L):
                    V = np.asarray(m.vertices)
                    axis = np.subtract(seg[1], seg[0]) / L
                    hh = (V - np.array(seg[0])) @ axis
                    if abs(hh.min()) > 1e-9 or abs(hh.max() - L) > 1e-9:
                        t.violation("cylinder(segment): the solid does not span the segment", case, {"along": [float(hh.min()), float(hh.max())]})
            except Exception as e:
                t.violation(f"cylinder(segment) raises {type(e).__name__}", case, {"exc": repr(e)[:200]})
    elif shape == "cone":
        for n, r, h in itertools.product(secs, dims, dims):
            slant = np.sqrt(h * h + (r * np.cos(np.pi / n)) ** 2)
            each_placement(lambda T: creation.cone(radius=r, height=h, sections=n, transform=T), "cone", {"shape": "cone", "sections": n, "radius": r, "height": h},
                           expect_volume=ngon_area(n, r) * h / 3.0, expect_area=ngon_area(n, r) + ngon_perimeter(n, r) * slant / 2.0)
    elif shape == "annulus":
        for n, (r0, r1), h in itertools.product(secs, [(0.0, 1.0), (0.5, 1.0), (1.0, 3.0), (0.25, 0.5)], dims[:2]):
            rmin, rmax = min(r0, r1), max(r0, r1)
            each_placement(lambda T: creation.annulus(r_min=r0, r_max=r1, height=h, sections=n, transform=T), f"annulus[{'r_min = 0' if rmin == 0 else 'ring'}]", {"shape": "annulus", "sections": n, "r_min": r0, "r_max": r1, "height": h},
                           expect_volume=(ngon_area(n, rmax) - ngon_area(n, rmin)) * h)
        for seg in ([[1, 2, 3], [4, 6, 3]], [[0, 0, 5], [0, 0, 1]]):
            for r0 in (0.0, 0.5):
                case = {"shape": "annulus", "segment": seg, "r_min": r0}
                t.evaluations += 1
                try:
                    m = creation.annulus(r_min=r0, r_max=1.0, segment=seg, sections=8)
                    L = float(np.linalg.norm(np.subtract(seg[1], seg[0])))
                    if solid_check(t, m, "annulus(segment)", case, expect_volume=(ngon_area(8, 1.0) - ngon_area(8, r0)) * L):
                        V = np.asarray(m.vertices)
                        axis = np.subtract(seg[1], seg[0]) / L
                        hh = (V - np.array(seg[0])) @ axis
                        if abs(hh.min()) > 1e-9 or abs(hh.max() - L) > 1e-9:
                            t.violation("annulus(segment): the solid does not span the segment", case, {"along": [float(hh.min()), float(hh.max())]})
                except Exception as e:
                    t.violation(f"annulus(segment) raises {type(e).__name__}", case, {"exc": repr(e)[:200]})
    elif shape == "spheres":
        prev = None
        for sub in range(0, 4):
            each_placement(lambda T: (lambda m: m.apply_transform(T) if T is not None else m)(creation.icosphere(subdivisions=sub, radius=1.5)), "icosphere", {"shape": "icosphere", "subdivisions": sub})
            m = creation.icosphere(subdivisions=sub, radius=1.5)
            smooth = 4 / 3 * np.pi * 1.5**3
            err = smooth - float(m.volume)
            r = np.linalg.norm(np.asarray(m.vertices), axis=1)
            if np.abs(r - 1.5).max() > 1e-9:
                t.violation("icosphere: vertices are not on the sphere", {"shape": "icosphere", "subdivisions": sub}, {})
            if err < 0 or (prev is not None and err > prev * 0.5):
                t.violation("icosphere: inscribed volume does not approach the smooth value as resolution grows", {"shape": "icosphere", "subdivisions": sub}, {"error": err, "previous": prev})
            prev = err
        prev = None
        for cnt in ([4, 4], [5, 6], [6, 5], [8, 8], [16, 16], [32, 32]):
            each_placement(lambda T: creation.uv_sphere(radius=2.0, count=cnt, transform=T), "uv_sphere", {"shape": "uv_sphere", "count": cnt})
            m = creation.uv_sphere(radius=2.0, count=cnt)
            smooth = 4 / 3 * np.pi * 8
            err = smooth - float(m.volume)
            if err < 0 or np.abs(np.linalg.norm(np.asarray(m.vertices), axis=1) - 2.0).max() > 1e-9:
                t.violation("uv_sphere: not inscribed in the sphere", {"shape": "uv_sphere", "count": cnt}, {"error": err})
            if cnt[0] >= 8:
                if prev is not None and err > prev * 0.5:
                    t.violation("uv_sphere: inscribed volume does not approach the smooth value as resolution grows", {"shape": "uv_sphere", "count": cnt}, {"error": err, "previous": prev})
                prev = err
        for cnt, h, r in itertools.product(([4, 4], [5, 6], [5, 8], [7, 7], [8, 8], [9, 5], [16, 16]), (1.0, 3.0), (0.5, 1.0)):
            smooth = np.pi * r * r * h + 4 / 3 * np.pi * r**3
            case = {"shape": "capsule", "count": cnt, "height": h, "radius": r}
            each_placement(lambda T: creation.capsule(height=h, radius=r, count=cnt, transform=T), "capsule", case)
            m = creation.capsule(height=h, radius=r, count=cnt)
            if float(m.volume) > smooth * (1 + 1e-9) or float(m.volume) < smooth * (0.3 if cnt[0] < 8 else (0.8 if cnt[0] < 16 else 0.95)):
                t.violation("capsule: volume is not that of a tessellation inscribed in the capsule", case, {"got": float(m.volume), "smooth": smooth})
            # inscribed: every vertex on the smooth capsule surface; the solid is its own mirror image in its mid-plane
            Vm = np.asarray(m.vertices, dtype=float)
            dist = np.linalg.norm(Vm - np.column_stack((np.zeros(len(Vm)), np.zeros(len(Vm)), np.clip(Vm[:, 2], -h / 2, h / 2))), axis=1)
            if np.abs(dist - r).max() > 1e-9:
                t.violation("capsule: a vertex is not on the capsule surface", case, {"max": float(np.abs(dist - r).max())})
            key = lambda A: sorted(map(tuple, np.round(A / 1e-9).astype(np.int64).tolist()))
            if key(Vm) != key(Vm * [1, 1, -1]) or abs(float(m.center_mass[2])) > 1e-9 * (h + r):
                t.violation(f"capsule: the solid is not symmetric about its mid-plane [{'odd' if cnt[0] % 2 else 'even'} profile count]", case, {"center_mass_z": float(m.center_mass[2])})
            ext = np.ptp(np.asarray(m.vertices), axis=0)
            if abs(ext[2] - (h + 2 * r)) > 1e-9:
                t.violation("capsule: total length is not height + 2 radius", case, {"got": float(ext[2])})
    elif shape == "torus":
        for nM, nm in itertools.product((3, 4, 7, 12, 32), (3, 4, 7, 12, 32)):
            R, r = 3.0, 1.0
            # exact volume of the tessellation: solid of revolution of an inscribed m-gon, stacked as n prisms (Pappus per section)
            case = {"shape": "torus", "major_sections": nM, "minor_sections": nm}
            each_placement(lambda T: creation.torus(major_radius=R, minor_radius=r, major_sections=nM, minor_sections=nm, transform=T), "torus", case)
            m = creation.torus(major_radius=R, minor_radius=r, major_sections=nM, minor_sections=nm)
            smooth = 2 * np.pi**2 * R * r * r
            if float(m.volume) > smooth * (1 + 1e-9):
                t.violation("torus: volume exceeds the smooth torus (not inscribed)", case, {"got": float(m.volume), "smooth": smooth})
            if nM == 32 and nm == 32 and abs(float(m.volume) - smooth) > 0.02 * smooth:
                t.violation("torus: volume does not approach the smooth value", case, {"got": float(m.volume)})
    elif shape == "revolve":
        profiles = {"triangle": [[0, 0], [2, 1], [0, 2]], "rectangle_on_axis": [[0, 0], [1, 0], [1, 2], [0, 2]], "closed_rectangle_off_axis": [[1, 0], [2, 0], [2, 1], [1, 1], [1, 0]]}
        for (pn, prof), ang, n in itertools.product(profiles.items(), (None, np.pi / 6, np.pi / 2, np.pi, 3 * np.pi / 2), (3, 4, 5, 8, 12)):
            if ang is not None and n < 3:
                continue
            case = {"shape": "revolve", "profile": pn, "angle": ang, "sections": n}
            P = np.array(prof, dtype=float)
            # exact volume of the tessellated solid: each polygon edge sweeps a frustum-like band; by the
            # divergence theorem on the inscribed polygonal revolution with k sectors of half-angle a:
            full = ang is None
            k = n
            theta = (2 * np.pi if full else ang) / k
            # area of the profile polygon region between the curve and the axis (signed, counter-clockwise)
            X, Y = P[:, 0], P[:, 1]
            closedp = np.allclose(P[0], P[-1])
            Xc, Yc = (X, Y) if closedp else (np.append(X, [0.0]) if False else X, Y)
            # volume of one sector: integral over the profile region of (1/2) x^2 sin(theta) dy  -> use polygon formula
            # V_sector = sin(theta)/2 * integral x^2 dy over region = sin(theta)/2 * (1/3) * sum over boundary (x_i^2 + x_i x_j + x_j^2)(y_j - y_i)  [Green]
            loop = P if closedp else np.vstack([P, [[0.0, P[-1, 1]], [0.0, P[0, 1]]]])
            xi, yi = loop[:, 0], loop[:, 1]
            xj, yj = np.roll(xi, -1), np.roll(yi, -1)
            I = ((xi**2 + xi * xj + xj**2) * (yj - yi)).sum() / 3.0
            vol = abs(np.sin(theta) / 2.0 * I * k)
            each_placement(lambda T: creation.revolve(P, angle=ang, sections=n, cap=True, transform=T), f"revolve[{'full' if full else 'partial angle'}]", case, expect_volume=vol)
    elif shape == "extrude":
        from shapely.geometry import Polygon

        polys = {
            "square": Polygon([(0, 0), (2, 0), (2, 2), (0, 2)]),
            "L": Polygon([(0, 0), (3, 0), (3, 1), (1, 1), (1, 3), (0, 3)]),
            "square_with_hole": Polygon([(0, 0), (4, 0), (4, 4), (0, 4)], [[(1, 1), (1, 2), (2, 2), (2, 1)]]),
            "square_with_two_holes": Polygon([(0, 0), (6, 0), (6, 4), (0, 4)], [[(1, 1), (1, 3), (2, 3), (2, 1)], [(4, 1), (4, 2), (5, 2), (5, 1)]]),
            "clockwise_square": Polygon([(0, 0), (0, 2), (2, 2), (2, 0)]),
        }
        for (pn, pg), h, eng in itertools.product(polys.items(), (0.5, 2.0, -1.0), ("earcut", "triangle", "manifold")):
            case = {"shape": "extrude_polygon", "polygon": pn, "height": h, "engine": eng}
            per = pg.exterior.length + sum(i.length for i in pg.interiors)
            collinear = pn == "square_with_two_holes"
            each_placement(lambda T: creation.extrude_polygon(pg, height=h, transform=T, engine=eng), f"extrude_polygon[{eng}{'; holes with collinear edges' if collinear else ''}]", case, expect_volume=pg.area * abs(h), expect_area=2 * pg.area + per * abs(h))
        # sweeps
        paths = {"straight": [[0, 0, 0], [0, 0, 3]], "L_path": [[0, 0, 0], [0, 0, 3], [3, 0, 3]], "oblique": [[0, 0, 0], [1, 2, 3], [1, 5, 4]], "closed_square": [[0, 0, 0], [4, 0, 0], [4, 4, 0], [0, 4, 0], [0, 0, 0]]}
        for (pn, pg), (sn, path) in itertools.product(list(polys.items())[:3], paths.items()):
            case = {"shape": "sweep_polygon", "polygon": pn, "path": sn}
            t.evaluations += 1
            try:
                small = Polygon(np.array(pg.exterior.coords) * 0.2 - 0.2, [np.array(i.coords) * 0.2 - 0.2 for i in pg.interiors])
                m = creation.sweep_polygon(small, np.array(path, dtype=float))
                if sn == "straight":
                    solid_check(t, m, "sweep_polygon[straight]", case, expect_volume=small.area * 3.0)
                else:
                    solid_check(t, m, f"sweep_polygon[{'closed path' if sn.startswith('closed') else 'open path'}]", case)
            except Exception as e:
                t.violation(f"sweep_polygon raises {type(e).__name__} [{sn}]", case, {"exc": repr(e)[:200]})
    t.sample({"shape": shape, "tier": tier}, limit=1)
    return t


# ---------------------------------------------------------------------------
# primitives: mesh reflects current parameters
# ---------------------------------------------------------------------------


def prim_build(kind):
    from shapely.geometry import Polygon
    from trimesh import primitives

    T = H(R345, [1, 0, 2])
    if kind == "Box":
        return primitives.Box(extents=[1, 2, 3], transform=T.copy())
    if kind == "Sphere":
        return primitives.Sphere(radius=1.5, center=[1, 2, 3], subdivisions=2)
    if kind == "Cylinder":
        return primitives.Cylinder(radius=1.0, height=3.0, sections=9, transform=T.copy())
    if kind == "Capsule":
        return primitives.Capsule(radius=0.5, height=2.0, transform=T.copy())
    return primitives.Extrusion(polygon=Polygon([(0, 0), (2, 0), (2, 1), (0, 1)]), height=1.5, transform=T.copy())


def prim_fresh(p):
    """A primitive freshly constructed from the current parameter values."""
    from trimesh import primitives

    pr = p.primitive
    k = type(p).__name__
    if k == "Box":
        return primitives.Box(extents=np.array(pr.extents), transform=np.array(pr.transform))
    if k == "Sphere":
        return primitives.Sphere(radius=float(pr.radius), center=np.array(pr.center), subdivisions=int(pr.subdivisions))
    if k == "Cylinder":
        return primitives.Cylinder(radius=float(pr.radius), height=float(pr.height), sections=int(pr.sections), transform=np.array(pr.transform))
    if k == "Capsule":
        return primitives.Capsule(radius=float(pr.radius), height=float(pr.height), sections=int(pr.sections), transform=np.array(pr.transform))
    return primitives.Extrusion(polygon=pr.polygon, height=float(pr.height), transform=np.array(pr.transform))


def prim_edits(kind):
    E = {
        "read_mesh": lambda p: (p.vertices, p.faces, p.face_normals),
        "read_analytic": lambda p: (p.volume, p.area, p.moment_inertia, p.bounds),
        "apply_transform(rigid)": lambda p: p.apply_transform(H(R345.T, [0, 1, 0])),
        "apply_translation(small)": lambda p: p.apply_translation([4e-6, 0, 0]),
        "apply_translation": lambda p: p.apply_translation([1, 2, 3]),
        "copy": lambda p: p.copy(),
        "copy.deepcopy": lambda p: __import__("copy").deepcopy(p),
        "set transform": lambda p: setattr(p.primitive, "transform", H(t=[5, 5, 5])),
        "set transform (tiny change)": lambda p: setattr(p.primitive, "transform", np.array(p.primitive.transform) + H(t=[3e-6, 0, 0]) - np.eye(4)),
    }
    if kind != "Extrusion":
        E["apply_scale"] = lambda p: p.apply_scale(2.0)
    if kind == "Box":
        E["set extents"] = lambda p: setattr(p.primitive, "extents", [2, 2, 5])
        E["set extents (tiny change)"] = lambda p: setattr(p.primitive, "extents", np.array(p.primitive.extents) * (1 + 4e-6))
    if kind in ("Sphere", "Cylinder", "Capsule"):
        E["set radius"] = lambda p: setattr(p.primitive, "radius", 2.5)
        E["set radius (tiny change)"] = lambda p: setattr(p.primitive, "radius", float(p.primitive.radius) * (1 + 4e-6))
    if kind in ("Cylinder", "Capsule", "Extrusion"):
        E["set height"] = lambda p: setattr(p.primitive, "height", 4.0)
        E["set height (tiny change)"] = lambda p: setattr(p.primitive, "height", float(p.primitive.height) + 3e-6)
    if kind in ("Cylinder", "Capsule"):
        E["set sections"] = lambda p: setattr(p.primitive, "sections", 5)
    if kind == "Sphere":
        E["set subdivisions"] = lambda p: setattr(p.primitive, "subdivisions", 1)
        E["set center"] = lambda p: setattr(p.primitive, "center", [0, 0, 9])
    return E


def _w_primitive(task):
    kind, depth = task
    t = harness.Tally()
    E = prim_edits(kind)
    names = list(E)
    hists = [[a] for a in names] + [[a, b] for a in names for b in names]
    if depth >= 3:
        hists += [[a, b, c] for a in names for b in names for c in names if a.startswith(("read", "set", "apply")) and c.startswith(("read", "set", "apply"))]
    for hist in hists:
        case = {"family": "primitive", "kind": kind, "history": hist}
        t.evaluations += 1
        t.nontrivial_count += 1
        try:
            p = prim_build(kind)
            copy_bad = None
            for n in hist:
                if n in ("copy", "copy.deepcopy"):
                    # the copy is the primitive with the source's parameters: same tessellation as a fresh one built from them
                    f0 = prim_fresh(p)
                    r = E[n](p)
                    Vc, Fc, V0, F0 = np.asarray(r.vertices), np.asarray(r.faces), np.asarray(f0.vertices), np.asarray(f0.faces)
                    if Vc.shape != V0.shape or Fc.shape != F0.shape or not np.array_equal(Fc, F0) or np.abs(Vc - V0).max() > 1e-9 * (1 + np.abs(V0).max()):
                        copy_bad = n
                    p = r
                else:
                    r = E[n](p)
            if copy_bad is not None:
                t.violation(f"the mesh of the copy of a primitive does not reflect the parameters of the primitive it was copied from [{kind}; {copy_bad}]", case, {})
                continue
            f = prim_fresh(p)
            V1, F1 = np.asarray(p.vertices), np.asarray(p.faces)
            V2, F2 = np.asarray(f.vertices), np.asarray(f.faces)
        except Exception as e:
            t.violation(f"primitive edit history raises {type(e).__name__} [{kind}]", case, {"exc": repr(e)[:300]})
            continue
        last_set = [n for n in hist if not n.startswith("read")][-1:] or ["none"]
        if V1.shape != V2.shape or F1.shape != F2.shape or not np.array_equal(F1, F2) or np.abs(V1 - V2).max() > 1e-9 * (1 + np.abs(V2).max()):
            t.violation(f"primitive mesh does not reflect the current parameters [{kind}; last edit: {last_set[0]}]", case, {"max_abs": float(np.abs(V1 - V2).max()) if V1.shape == V2.shape else "shape"})
            continue
        for attr in ("volume", "area"):
            a, b = float(getattr(p, attr)), float(getattr(f, attr))
            if abs(a - b) > 1e-9 * max(1.0, abs(b)):
                t.violation(f"primitive {attr} does not reflect the current parameters [{kind}; last edit: {last_set[0]}]", case, {"got": a, "want": b})
                break
        else:
            if np.abs(np.asarray(p.moment_inertia) - np.asarray(f.moment_inertia)).max() > 1e-9 * max(1.0, np.abs(np.asarray(f.moment_inertia)).max()) or np.abs(np.asarray(p.bounds) - np.asarray(f.bounds)).max() > 1e-9 * (1 + np.abs(np.asarray(f.bounds)).max()):
                t.violation(f"primitive inertia / bounds do not reflect the current parameters [{kind}; last edit: {last_set[0]}]", case, {})
    # analytic measures of the primitive classes
    import trimesh

    p = prim_build(kind)
    case = {"family": "primitive_measures", "kind": kind}
    solid_check(t, p, f"primitive {kind}", case)
    tri = np.asarray(p.vertices)[np.asarray(p.faces)]
    mv = float(np.einsum("ij,ij->i", tri[:, 0], np.cross(tri[:, 1], tri[:, 2])).sum() / 6)
    if kind == "Box":
        if abs(float(p.volume) - 6.0) > 1e-9 or abs(float(p.area) - 22.0) > 1e-9:
            t.violation("Box: analytic volume / area wrong", case, {"volume": float(p.volume), "area": float(p.area)})
        Iw = trimesh.triangles.mass_properties(tri)["inertia"]
        if np.abs(np.asarray(p.moment_inertia) - Iw).max() > 1e-9 * np.abs(Iw).max():
            t.violation("Box: analytic inertia differs from the integral over the box", case, {"got": np.asarray(p.moment_inertia), "want": Iw})
    elif kind == "Extrusion":
        if abs(float(p.volume) - 3.0) > 1e-9 or abs(float(p.area) - (2 * 2 + 6 * 1.5)) > 1e-9:
            t.violation("Extrusion: analytic volume / area wrong", case, {"volume": float(p.volume), "area": float(p.area)})
        # every polygon class: non-convex, one hole, two holes; built that way and reached by editing .polygon
        from shapely.geometry import Polygon
        from trimesh import primitives

        polys = {
            "L shape": Polygon([(0, 0), (4, 0), (4, 1), (1, 1), (1, 3), (0, 3)]),
            "one hole": Polygon([(0, 0), (6, 0), (6, 4), (0, 4)], [[(1, 1), (1, 3), (3, 3), (3, 1)]]),
            "two holes": Polygon([(0, 0), (8, 0), (8, 4), (0, 4)], [[(1, 1), (1, 3), (2, 3), (2, 1)], [(4, 1.5), (4, 2.5), (7, 2.5), (7, 1.5)]]),  # no edge of one hole is collinear with an edge of the other (that is the recorded earcut finding)
        }
        for pname, pg in polys.items():
            for how in ("constructed", "polygon edited"):
                for h in (1.5, -2.0):
                    c2 = {"family": "primitive_measures", "kind": kind, "polygon": pname, "how": how, "height": h}
                    t.evaluations += 1
                    t.nontrivial_count += 1
                    try:
                        if how == "constructed":
                            q = primitives.Extrusion(polygon=pg, height=h)
                        else:
                            q = primitives.Extrusion(polygon=Polygon([(0, 0), (2, 0), (2, 1), (0, 1)]), height=h)
                            _ = (q.area, q.volume, len(q.faces))
                            q.primitive.polygon = pg
                        per = pg.exterior.length + sum(r.length for r in pg.interiors)
                        want_a, want_v = 2 * pg.area + per * abs(h), pg.area * abs(h)
                        qt = np.asarray(q.vertices)[np.asarray(q.faces)]
                        mesh_a = float(np.linalg.norm(np.cross(qt[:, 1] - qt[:, 0], qt[:, 2] - qt[:, 0]), axis=1).sum() / 2)
                        mesh_v = float(np.einsum("ij,ij->i", qt[:, 0], np.cross(qt[:, 1], qt[:, 2])).sum() / 6)
                        got_a, got_v = float(q.area), float(q.volume)
                    except Exception as e:
                        t.violation(f"Extrusion [{pname}; {how}] raises {type(e).__name__}", c2, {"exc": repr(e)[:200]})
                        continue
                    if abs(got_a - want_a) > 1e-9 * want_a or abs(got_v - want_v) > 1e-9 * want_v:
                        t.violation(f"Extrusion: analytic volume / area differ from the exact values [{pname}]", c2, {"area": got_a, "want_area": want_a, "volume": got_v, "want_volume": want_v})
                    elif abs(mesh_a - want_a) > 1e-9 * want_a or abs(mesh_v - want_v) > 1e-9 * want_v:
                        t.violation(f"Extrusion: the tessellation does not have the exact volume / area [{pname}]", c2, {"mesh_area": mesh_a, "want_area": want_a, "mesh_volume": mesh_v, "want_volume": want_v})
    else:
        smooth = {"Sphere": 4 / 3 * np.pi * 1.5**3, "Cylinder": np.pi * 3.0, "Capsule": np.pi * 0.25 * 2.0 + 4 / 3 * np.pi * 0.125}[kind]
        if abs(float(p.volume) - smooth) > 1e-9 * smooth and abs(float(p.volume) - mv) > 1e-9 * mv:
            t.violation(f"{kind}: volume is neither the smooth value nor the value of the tessellation", case, {"got": float(p.volume), "smooth": smooth, "mesh": mv})
        if mv > smooth * (1 + 1e-9):
            t.violation(f"{kind}: tessellation is not inscribed (mesh volume exceeds the smooth volume)", case, {"mesh": mv, "smooth": smooth})
    return t


def _run(task):
    return task[0](task[1])


def replay(case):
    t = harness.Tally()
    if case.get("family", "").startswith("primitive"):
        t.merge(_w_primitive((case["kind"], max(2, len(case.get("history", []))))))
    else:
        shape = case["shape"]
        group = {"icosphere": "spheres", "uv_sphere": "spheres", "capsule": "spheres", "extrude_polygon": "extrude", "sweep_polygon": "extrude"}.get(shape, shape)
        t.merge(_w_creation((group, "thorough")))
    return [(k, d) for k, c, d in t.violations]


def main(run):
    tier = run.tier
    tasks = [(_w_creation, (s, tier)) for s in ("box", "cylinder", "cone", "annulus", "spheres", "torus", "revolve", "extrude")]
    tasks += [(_w_primitive, (k, 2 if tier == "quick" else 3)) for k in ("Box", "Sphere", "Cylinder", "Capsule", "Extrusion")]
    res = harness.pmap(_run, tasks)
    run.merge(res)
    cov = {
        "exhaustive": True,
        "rule": "creation functions x parameter grids (sections 3..12 and 32, sizes {0.5,1,3}, partial angles, polygons with holes x 3 engines, sweep paths) x placements (none, generic rigid, rotations and mirrors from the 48 signed permutations: all in thorough, every 6th in quick, segment forms); primitives x every edit history of length <= 2 (3 in thorough) compared with a freshly constructed primitive",
    }
    return run.finish(cov, assumptions=["validity judged by direct counting and signed volume, not by trimesh's predicates", "curved shapes: exact prism / pyramid / revolution formulas of the inscribed n-gon tessellation where stated, otherwise inscribed + convergent"])
