"""
C11 - plane sections lie on plane and surface; slices partition the solid.

Engine E2: lattice meshes x {13 lattice directions + 2 generic} x every offset that puts the
plane through a vertex height, and strictly between every two consecutive vertex heights
(so every sign pattern and every on-vertex / on-edge / on-face case occurs), with an exact
(Fraction) side classification and a triangle-by-triangle clipping oracle.
"""

import itertools
from fractions import Fraction as Fr

import numpy as np

from mc.core import harness

LEVEL = "exploration"


# ---------------------------------------------------------------------------
# meshes on a lattice
# ---------------------------------------------------------------------------


def _prism(poly_xy, holes_xy, z0, z1):
    """Extrude a polygon (with holes) given as integer vertex loops; triangulated by ear-free fan on convex pieces.
    Built from explicit quads so the test meshes do not depend on trimesh.creation."""
    raise NotImplementedError


def box(lo, hi):
    lo, hi = np.array(lo, dtype=float), np.array(hi, dtype=float)
    c = np.array(list(itertools.product(*zip(lo, hi))))
    idx = {tuple(k): i for i, k in enumerate(itertools.product((0, 1), repeat=3))}
    quads = [
        [(0, 0, 0), (0, 0, 1), (0, 1, 1), (0, 1, 0)], [(1, 0, 0), (1, 1, 0), (1, 1, 1), (1, 0, 1)],
        [(0, 0, 0), (1, 0, 0), (1, 0, 1), (0, 0, 1)], [(0, 1, 0), (0, 1, 1), (1, 1, 1), (1, 1, 0)],
        [(0, 0, 0), (0, 1, 0), (1, 1, 0), (1, 0, 0)], [(0, 0, 1), (1, 0, 1), (1, 1, 1), (0, 1, 1)],
    ]
    F = []
    for q in quads:
        a, b, cc, d = [idx[k] for k in q]
        F += [[a, b, cc], [a, cc, d]]
    return c, np.array(F)


def merge(parts):
    V, F, off = [], [], 0
    for v, f in parts:
        V.append(v)
        F.append(f + off)
        off += len(v)
    return np.vstack(V), np.vstack(F)


def weld(V, F):
    """Merge coincident vertices (exact, lattice) and drop nothing else."""
    key = {}
    inv = []
    out = []
    for p in V:
        k = tuple(p.tolist())
        if k not in key:
            key[k] = len(out)
            out.append(p)
        inv.append(key[k])
    return np.array(out), np.array(inv)[F]


def cells_mesh(cells):
    """Union of unit-size lattice boxes given by their integer lower corners and sizes: outer surface only."""
    # collect faces of all cells; remove internal faces (appear twice with opposite orientation)
    quads = {}
    for lo, hi in cells:
        v, f = box(lo, hi)
        for k in range(0, 12, 2):
            tri_a, tri_b = f[k], f[k + 1]
            q = [tuple(v[i].tolist()) for i in (tri_a[0], tri_a[1], tri_a[2], tri_b[2])]
            quads.setdefault(frozenset(q), []).append(q)
    V, F = [], []
    for key, qs in quads.items():
        if len(qs) == 2:
            continue
        q = qs[0]
        b = len(V)
        V += [np.array(p) for p in q]
        F += [[b, b + 1, b + 2], [b, b + 2, b + 3]]
    return weld(np.array(V), np.array(F))


def mesh_family():
    fam = {}
    fam["tetrahedron"] = (np.array([[0, 0, 0], [4, 0, 0], [0, 4, 0], [0, 0, 4]], dtype=float), np.array([[0, 2, 1], [0, 1, 3], [1, 2, 3], [0, 3, 2]]))
    fam["box"] = weld(*box([0, 0, 0], [2, 4, 6]))
    fam["octahedron"] = (np.array([[2, 0, 0], [-2, 0, 0], [0, 2, 0], [0, -2, 0], [0, 0, 2], [0, 0, -2]], dtype=float) + 2.0,
                         np.array([[0, 2, 4], [2, 1, 4], [1, 3, 4], [3, 0, 4], [2, 0, 5], [1, 2, 5], [3, 1, 5], [0, 3, 5]]))
    # L-shaped prism from 3 unit-square cells (x,y) extruded z in [0,2]; non-convex
    fam["L_prism"] = cells_mesh([([0, 0, 0], [2, 2, 2]), ([2, 0, 0], [4, 2, 2]), ([0, 2, 0], [2, 4, 2])])
    # square ring (genus 1): 3x3 cells minus the centre
    fam["square_ring"] = cells_mesh([([2 * x, 2 * y, 0], [2 * x + 2, 2 * y + 2, 2]) for x in range(3) for y in range(3) if (x, y) != (1, 1)])
    # plate with a C-shaped through pocket (non-convex hole whose centroid lies in the material)
    pocket = {(1, 1), (2, 1), (3, 1), (1, 2), (1, 3), (2, 3), (3, 3)}
    fam["plate_C_pocket"] = cells_mesh([([x, y, 0], [x + 1, y + 1, 2]) for x in range(5) for y in range(5) if (x, y) not in pocket])
    fam["two_boxes"] = merge([weld(*box([0, 0, 0], [2, 2, 2])), weld(*box([4, 1, 0], [6, 3, 4]))])
    v, f = fam["box"]
    fam["open_box"] = (v.copy(), f[:-2].copy())
    return fam


CONVEX = {"tetrahedron", "box", "octahedron"}
WATERTIGHT = {"tetrahedron", "box", "octahedron", "L_prism", "square_ring", "two_boxes", "plate_C_pocket"}

DIRECTIONS = [(1, 0, 0), (0, 1, 0), (0, 0, 1), (1, 1, 0), (1, -1, 0), (1, 0, 1), (1, 0, -1), (0, 1, 1), (0, 1, -1),
              (1, 1, 1), (1, 1, -1), (1, -1, 1), (-1, 1, 1), (1, 2, 3), (2, -1, 5)]


def plane_offsets(V, n, tier):
    """Rational offsets d = n.p (un-normalised) : every vertex height and points strictly between."""
    hs = sorted({sum(int(a) * int(b) for a, b in zip(n, v)) for v in V.astype(int)})
    out = []
    for a, b in zip(hs[:-1], hs[1:]):
        out.append((Fr(a), "through a vertex height"))
        out.append((Fr(a + b, 2), "between vertex heights"))
        if tier == "thorough":
            out.append((Fr(3 * a + b, 4), "between vertex heights"))
            out.append((Fr(a) + Fr(b - a, 1000), "between vertex heights"))
    out.append((Fr(hs[-1]), "through a vertex height"))
    out.append((Fr(hs[-1] + 1), "outside"))
    return out


# ---------------------------------------------------------------------------
# exact oracle
# ---------------------------------------------------------------------------


def classify(V, F, n, d):
    """Exact signed heights of vertices relative to plane n.p = d (Fractions)."""
    h = [sum(Fr(int(a)) * int(b) for a, b in zip(n, v)) - d for v in V.astype(int)]
    sign = [(x > 0) - (x < 0) for x in h]
    return h, sign


def clip_segments(V, F, h, sign):
    """Oracle: for every triangle properly crossed by the plane the intersection segment (floats from exact)."""
    segs = []
    for f in F:
        s = [sign[i] for i in f]
        if not (1 in s and -1 in s):
            continue
        pts = []
        for a, b in ((f[0], f[1]), (f[1], f[2]), (f[2], f[0])):
            if sign[a] * sign[b] < 0:
                t = h[a] / (h[a] - h[b])
                pts.append(tuple(float(Fr(int(V[a][k])) + t * (int(V[b][k]) - int(V[a][k]))) for k in range(3)))
        for i in f:
            if sign[i] == 0:
                pts.append(tuple(float(x) for x in V[i]))
        # two distinct points
        uniq = []
        for p in pts:
            if p not in uniq:
                uniq.append(p)
        if len(uniq) == 2:
            segs.append(tuple(sorted(uniq)))
    return segs


def features(V, F, sign):
    on = {i for i, s in enumerate(sign) if s == 0}
    edge_on = any((f[a] in on and f[b] in on) for f in F for a, b in ((0, 1), (1, 2), (2, 0)))
    return {"vertex_on_plane": bool(on), "edge_on_plane": edge_on}


def dist_points_tris(P, T):
    """Exact-enough (float64) distance from points P (n,3) to the union of triangles T (m,3,3)."""
    P = np.asarray(P, dtype=float)
    out = np.full(len(P), np.inf)
    for tri in T:
        a, b, c = tri
        n = np.cross(b - a, c - a)
        nn = np.dot(n, n)
        best = np.full(len(P), np.inf)
        if nn > 0:
            # projection inside?
            w = P - a
            g = np.dot(np.cross(b - a, w), n) / nn
            bta = np.dot(np.cross(w, c - a), n) / nn
            al = 1 - g - bta
            inside = (al >= -1e-12) & (bta >= -1e-12) & (g >= -1e-12)
            dplane = np.abs(np.dot(w, n)) / np.sqrt(nn)
            best = np.where(inside, dplane, np.inf)
        for u, v in ((a, b), (b, c), (c, a)):
            e = v - u
            tt = np.clip(np.dot(P - u, e) / max(np.dot(e, e), 1e-300), 0, 1)
            dd = np.linalg.norm(P - (u + tt[:, None] * e), axis=1)
            best = np.minimum(best, dd)
        out = np.minimum(out, best)
    return out


def seg_key(seg, q=1e-7):
    a, b = [tuple(np.round(np.asarray(p) / q).astype(np.int64).tolist()) for p in seg]
    return tuple(sorted((a, b)))


# ---------------------------------------------------------------------------
# the check for one (mesh, plane)
# ---------------------------------------------------------------------------


def check_plane(t, name, V, F, n, d, dclass, tier, case):
    import trimesh

    nrm = np.array(n, dtype=float)
    ln = np.linalg.norm(nrm)
    origin = nrm * float(d) / (ln * ln)  # a point with n.o = d
    h, sign = classify(V, F, n, d)
    ft = features(V, F, sign)
    scale = float(np.abs(V).max()) + 1.0
    tol = 1e-9 * scale
    tris = V[F]
    m = trimesh.Trimesh(V.copy(), F.copy(), process=False)
    cls = f"{'plane contains a mesh edge' if ft['edge_on_plane'] else ('plane through a vertex' if ft['vertex_on_plane'] else 'general position')}"
    t.stats["planes:" + cls] += 1
    want = clip_segments(V, F, h, sign)
    if want:
        t.nontrivial.add(harness.short_hash((name, n, str(d))))

    def on_plane_and_surface(pts, what):
        if len(pts) == 0:
            return True
        pts = np.asarray(pts, dtype=float).reshape(-1, 3)
        dp = np.abs((pts - origin) @ nrm) / ln
        if dp.max() > tol:
            t.violation(f"{what}: a section point is off the plane [{cls}]", case, {"distance": float(dp.max())})
            return False
        ds = dist_points_tris(pts, tris)
        if ds.max() > tol:
            t.violation(f"{what}: a section point is off the mesh surface [{cls}]", case, {"distance": float(ds.max())})
            return False
        return True

    def compare_segments(lines, what):
        lines = np.asarray(lines, dtype=float).reshape(-1, 2, 3)
        mids = lines.mean(axis=1)
        if not on_plane_and_surface(np.vstack([lines.reshape(-1, 3), mids]) if len(lines) else [], what):
            return False
        if ft["edge_on_plane"]:
            return True
        got = {}
        for s in lines:
            if np.linalg.norm(s[0] - s[1]) <= tol:
                continue
            got[seg_key(s)] = got.get(seg_key(s), 0) + 1
        exp = {}
        for s in want:
            exp[seg_key(s)] = exp.get(seg_key(s), 0) + 1
        if set(got) != set(exp):
            miss = len(set(exp) - set(got))
            extra = len(set(got) - set(exp))
            t.violation(f"{what}: {'misses part of the intersection' if miss else 'returns segments that are not in the intersection'} [{cls}]", case, {"missing": miss, "extra": extra, "n_want": len(exp)})
            return False
        if got != exp:
            t.violation(f"{what}: a segment is returned a different number of times than triangles are crossed [{cls}]", case, {})
            return False
        return True

    # mesh_plane
    t.evaluations += 1
    try:
        lines, fidx = trimesh.intersections.mesh_plane(m, plane_normal=nrm, plane_origin=origin, return_faces=True)
    except Exception as e:
        t.violation(f"mesh_plane raises {type(e).__name__} [{cls}]", case, {"exc": repr(e)[:200]})
        return
    ok = compare_segments(lines, "mesh_plane")
    if ok and len(lines) and len(fidx) == len(lines):
        # each segment lies on the face it is attributed to
        mids = np.asarray(lines).mean(axis=1)
        for k in range(len(lines)):
            if dist_points_tris(mids[k : k + 1], tris[[fidx[k]]])[0] > tol:
                t.violation(f"mesh_plane: a segment does not lie on the face it is attributed to [{cls}]", case, {"segment": k})
                break
    # closed loops
    if ok and name in WATERTIGHT and not ft["vertex_on_plane"] and len(lines):
        cnt = {}
        for s in np.asarray(lines):
            for p in s:
                k = tuple(np.round(p / 1e-7).astype(np.int64).tolist())
                cnt[k] = cnt.get(k, 0) + 1
        if any(v != 2 for v in cnt.values()):
            t.violation(f"mesh_plane: section of a watertight mesh is not a set of closed loops [{cls}]", case, {"degrees": sorted(set(cnt.values()))})
        try:
            sec = m.section(plane_normal=nrm, plane_origin=origin)
            if sec is None or not sec.is_closed:
                t.violation(f"section: path of a watertight mesh in general position is not closed [{cls}]", case, {})
            else:
                wl = sum(np.linalg.norm(np.subtract(*s)) for s in want)
                if abs(sec.length - wl) > 1e-7 * max(1, wl):
                    t.violation(f"section: path length differs from the intersection length [{cls}]", case, {"got": float(sec.length), "want": float(wl)})
                # the planar form of the section: lifted back by the transform it comes with, its points
                # are the section's points again - on the plane and on the surface - for every admissible frame
                from trimesh.geometry import plane_transform

                centre = V.mean(axis=0)
                frames = (
                    ("fitted frame", None),
                    ("frame in the section plane", plane_transform(origin=origin, normal=nrm / ln)),
                    ("parallel frame off the section plane", plane_transform(origin=centre + np.array([0.75, -1.5, 2.25]), normal=nrm / ln)),
                    ("parallel frame off the section plane, normal reversed", plane_transform(origin=-centre - np.array([1.25, 0.5, -0.75]), normal=-nrm / ln)),
                )
                for fname, T in frames:
                    t.evaluations += 1
                    try:
                        planar, to3 = sec.to_2D() if T is None else sec.to_2D(to_2D=T.copy())
                        pv = np.asarray(planar.vertices, dtype=float)
                        back = np.column_stack((pv, np.zeros(len(pv)), np.ones(len(pv)))) @ np.asarray(to3, dtype=float).T
                        back = back[:, :3]
                        ok = on_plane_and_surface(back, f"section.to_2D [{fname}]: lifted back by the returned transform")
                        if ok and np.abs(back - np.asarray(sec.vertices)).max() > 10 * tol:
                            t.violation(f"section.to_2D [{fname}]: lifted back by the returned transform the vertices are not the section's vertices [{cls}]", case, {"distance": float(np.abs(back - np.asarray(sec.vertices)).max())})
                        if not np.allclose(planar.metadata["to_3D"], to3, atol=1e-12):
                            t.violation(f"section.to_2D [{fname}]: metadata to_3D differs from the returned transform [{cls}]", case, {})
                        if abs(planar.length - wl) > 1e-7 * max(1, wl):
                            t.violation(f"section.to_2D [{fname}]: planar length differs from the intersection length [{cls}]", case, {"got": float(planar.length), "want": float(wl)})
                    except Exception as e:
                        t.violation(f"section.to_2D [{fname}] raises {type(e).__name__} [{cls}]", case, {"exc": repr(e)[:200]})
        except Exception as e:
            t.violation(f"section raises {type(e).__name__} [{cls}]", case, {"exc": repr(e)[:200]})
    # face subsets
    for sub in ([0], list(range(0, len(F), 2)), list(range(len(F) // 2, len(F)))):
        t.evaluations += 1
        try:
            l2 = trimesh.intersections.mesh_plane(m, plane_normal=nrm, plane_origin=origin, local_faces=np.array(sub))
            wsub = clip_segments(V, F[sub], h, sign)
            if not ft["edge_on_plane"]:
                g = sorted(seg_key(s) for s in np.asarray(l2).reshape(-1, 2, 3) if np.linalg.norm(s[0] - s[1]) > tol)
                e = sorted(seg_key(s) for s in wsub)
                if g != e:
                    t.violation(f"mesh_plane(local_faces): differs from clipping those faces [{cls}]", dict(case, local_faces=sub), {"n_got": len(g), "n_want": len(e)})
        except Exception as e:
            t.violation(f"mesh_plane(local_faces) raises {type(e).__name__} [{cls}]", dict(case, local_faces=sub), {"exc": repr(e)[:200]})
    # slices
    if ft["vertex_on_plane"] and tier == "quick" and dclass != "through a vertex height":
        pass
    areas = {}
    for sgn in (1, -1):
        t.evaluations += 1
        try:
            sl = m.slice_plane(plane_origin=origin, plane_normal=sgn * nrm)
        except Exception as e:
            t.violation(f"slice_plane raises {type(e).__name__} [{cls}]", dict(case, side=sgn), {"exc": repr(e)[:200]})
            continue
        if sl is None or len(sl.faces) == 0:
            areas[sgn] = 0.0
            continue
        st = np.asarray(sl.triangles)
        hh = ((st.reshape(-1, 3) - origin) @ (sgn * nrm)) / ln
        if hh.min() < -tol:
            t.violation(f"slice_plane: returns surface on the negative side [{cls}]", dict(case, side=sgn), {"depth": float(hh.min())})
            continue
        pts = np.vstack([st.reshape(-1, 3), st.mean(axis=1)])
        ds = dist_points_tris(pts, tris)
        if ds.max() > tol * 10:
            t.violation(f"slice_plane: returns a triangle that is not on the original surface [{cls}]", dict(case, side=sgn), {"distance": float(ds.max())})
            continue
        areas[sgn] = float(sl.area)
    if len(areas) == 2:
        total = float(np.linalg.norm(np.cross(tris[:, 1] - tris[:, 0], tris[:, 2] - tris[:, 0]), axis=1).sum() / 2)
        # faces lying exactly in the plane belong to exactly one side or to both? the statement:
        # the areas of the two opposite slices add up to the original area
        if abs(areas[1] + areas[-1] - total) > 1e-8 * total:
            face_on = any(all(sign[i] == 0 for i in f) for f in F)
            t.violation(f"slice_plane: areas of the two opposite slices do not add up to the area of the mesh [{'a face lies in the plane' if face_on else cls}]", case, {"got": areas[1] + areas[-1], "want": total})
    # caps
    if name in WATERTIGHT:
        engines = ["earcut", "triangle", "manifold"]
        vol = abs(float(np.einsum("ij,ij->i", tris[:, 0], np.cross(tris[:, 1], tris[:, 2])).sum() / 6))
        # exact area of the cross-section (solid intersected with the plane): oriented boundary integral
        sec_area = None
        if not ft["vertex_on_plane"]:
            acc = 0.0
            for f in F:
                sg = [sign[i] for i in f]
                if not (1 in sg and -1 in sg):
                    continue
                pts = {}
                for a, b in ((f[0], f[1]), (f[1], f[2]), (f[2], f[0])):
                    if sign[a] * sign[b] < 0:
                        tt = h[a] / (h[a] - h[b])
                        pts[(a, b)] = np.array([float(Fr(int(V[a][k])) + tt * (int(V[b][k]) - int(V[a][k]))) for k in range(3)])
                (e1, p1), (e2, p2) = list(pts.items())
                nt = np.cross(V[f[1]] - V[f[0]], V[f[2]] - V[f[0]])
                dirn = np.cross(nt, nrm)
                if np.dot(p2 - p1, dirn) < 0:
                    p1, p2 = p2, p1
                acc += np.dot(nrm / ln, np.cross(p1 - origin, p2 - origin)) / 2.0
            sec_area = abs(acc)
        for eng in engines:
            vols = []
            wt = []
            failed = False
            for sgn in (1, -1):
                t.evaluations += 1
                try:
                    sl = m.slice_plane(plane_origin=origin, plane_normal=sgn * nrm, cap=True, engine=eng)
                    if sl is None or len(sl.faces) == 0:
                        vols.append(0.0)
                        wt.append(True)
                    else:
                        tt = np.asarray(sl.triangles)
                        vols.append(float(np.einsum("ij,ij->i", tt[:, 0], np.cross(tt[:, 1], tt[:, 2])).sum() / 6))
                        wt.append(bool(sl.is_watertight))
                        if sec_area is not None:
                            hh = np.abs((tt.reshape(-1, 3) - origin) @ nrm / ln).reshape(-1, 3).max(axis=1)
                            capt = tt[hh <= tol]
                            ca = float(np.linalg.norm(np.cross(capt[:, 1] - capt[:, 0], capt[:, 2] - capt[:, 0]), axis=1).sum() / 2) if len(capt) else 0.0
                            if abs(ca - sec_area) > 1e-7 * max(1.0, sec_area):
                                t.violation(f"slice_plane(cap=True, {eng}): the cap does not cover exactly the cross-section of the solid [{cls}]", dict(case, engine=eng, side=sgn), {"cap_area": ca, "section_area": sec_area})
                except Exception as e:
                    failed = True
                    if not ft["edge_on_plane"]:
                        t.violation(f"slice_plane(cap=True, {eng}) raises {type(e).__name__} [{cls}]", dict(case, engine=eng, side=sgn), {"exc": repr(e)[:200]})
            if failed:
                continue
            if abs(vols[0] + vols[1] - vol) > 1e-7 * vol:
                t.violation(f"slice_plane(cap=True, {eng}): volumes of the two halves do not add up [{cls}]", dict(case, engine=eng), {"got": vols, "want": vol})
            elif name in CONVEX and not all(wt):
                t.violation(f"slice_plane(cap=True, {eng}): half of a convex solid is not watertight [{cls}]", dict(case, engine=eng), {"watertight": wt})


def check_multiplane(t, name, V, F, n, offsets, tier):
    """section_multiplane with a non-unit normal: heights are distances along the unit normal."""
    import trimesh

    nrm = np.array(n, dtype=float)
    ln = np.linalg.norm(nrm)
    m = trimesh.Trimesh(V.copy(), F.copy(), process=False)
    d0 = offsets[0][0]
    origin = nrm * float(d0) / (ln * ln)
    heights = np.array([float(d - d0) / ln for d, _ in offsets])
    case = {"family": "multiplane", "mesh": name, "normal": list(n), "d0": str(d0)}
    t.evaluations += 1
    try:
        paths = m.section_multiplane(plane_origin=origin, plane_normal=nrm, heights=heights)
    except Exception as e:
        t.violation(f"section_multiplane raises {type(e).__name__}", case, {"exc": repr(e)[:200]})
        return
    scale = float(np.abs(V).max()) + 1.0
    tol = 1e-8 * scale
    tris = V[F]
    for (d, dclass), p in zip(offsets, paths):
        h, sign = classify(V, F, n, d)
        ft = features(V, F, sign)
        want = clip_segments(V, F, h, sign)
        if ft["edge_on_plane"]:
            continue
        if p is None:
            if want:
                t.violation("section_multiplane: misses a section that exists", dict(case, d=str(d)), {"n_want": len(want)})
            continue
        T = np.asarray(p.metadata["to_3D"])
        pts2 = np.asarray(p.vertices)
        pts3 = np.column_stack([pts2, np.zeros(len(pts2)), np.ones(len(pts2))]) @ T.T
        pts3 = pts3[:, :3]
        o = nrm * float(d) / (ln * ln)
        dp = np.abs((pts3 - o) @ nrm) / ln
        ds = dist_points_tris(pts3, tris)
        if dp.max() > tol:
            t.violation("section_multiplane: section points are off their plane", dict(case, d=str(d)), {"distance": float(dp.max())})
            break
        if ds.max() > tol:
            t.violation("section_multiplane: section points are off the mesh surface", dict(case, d=str(d)), {"distance": float(ds.max())})
            break
        wl = sum(np.linalg.norm(np.subtract(*s)) for s in want)
        if abs(float(p.length) - wl) > 1e-6 * max(1, wl):
            t.violation("section_multiplane: section length differs from the intersection length", dict(case, d=str(d)), {"got": float(p.length), "want": float(wl)})
            break


def _w(task):
    name, n, tier = task
    t = harness.Tally()
    V, F = mesh_family()[name]
    V = np.asarray(V, dtype=float)
    F = np.asarray(F)
    offs = plane_offsets(V, n, tier)
    for d, dclass in offs:
        case = {"family": "plane", "mesh": name, "normal": list(n), "d": str(d)}
        try:
            check_plane(t, name, V, F, n, d, dclass, tier, case)
        except Exception as e:
            t.violation("harness: check_plane crashed", case, {"exc": repr(e)[:300]})
    try:
        check_multiplane(t, name, V, F, n, offs, tier)
    except Exception as e:
        t.violation("harness: check_multiplane crashed", {"family": "multiplane", "mesh": name, "normal": list(n)}, {"exc": repr(e)[:300]})
    t.sample({"family": "plane", "mesh": name, "normal": list(n), "d": str(offs[1][0])}, limit=1)
    return t


def _selftest(_):
    """The test meshes themselves: closed ones must be watertight and outward by my own counting."""
    t = harness.Tally()
    from collections import Counter

    for name, (V, F) in mesh_family().items():
        t.evaluations += 1
        e = Counter()
        for f in F:
            for a, b in ((f[0], f[1]), (f[1], f[2]), (f[2], f[0])):
                e[(int(a), int(b))] += 1
        closed = all(e[(b, a)] == 1 and c == 1 for (a, b), c in e.items())
        tri = np.asarray(V, dtype=float)[F]
        vol = float(np.einsum("ij,ij->i", tri[:, 0], np.cross(tri[:, 1], tri[:, 2])).sum() / 6)
        if (name in WATERTIGHT) != closed or (name in WATERTIGHT and vol <= 0):
            t.violation("harness: a test mesh is not what it claims (closed / outward)", {"family": "selftest", "mesh": name}, {"closed": closed, "volume": vol})
    return t


def _run(task):
    return task[0](task[1])


def _placed(name, which):
    """A family mesh placed in general position: coordinates are no longer exact, vertices that lie in a common
    plane do so only up to rounding noise (what a rotated, scaled real-world part looks like)."""
    V, F = mesh_family()[name]
    V = np.asarray(V, dtype=float)
    c, s_ = 0.6, 0.8
    Rz = np.array([[c, -s_, 0], [s_, c, 0], [0, 0, 1.0]])
    Rx = np.array([[1.0, 0, 0], [0, 5 / 13, -12 / 13], [0, 12 / 13, 5 / 13]])
    R = Rz @ Rx
    scale, shift = [(100.0 / 3.0, [1 / 3, -20 / 7, 11.1]), (1e3 / 7.0, [-1e3, 2e3 / 3, 0.1])][which]
    return (V @ R.T) * scale + np.array(shift), np.asarray(F)


def _w_noisy(task):
    """Planes through the faces of a mesh in general position: the vertices of that face (and of coplanar ones)
    are on the plane only up to rounding.  Opposite slices must still partition the surface, capped halves the volume."""
    import trimesh

    name, which = task
    t = harness.Tally()
    V, F = _placed(name, which)
    m = trimesh.Trimesh(V.copy(), F.copy(), process=False)
    area = float(np.linalg.norm(np.cross(V[F][:, 1] - V[F][:, 0], V[F][:, 2] - V[F][:, 0]), axis=1).sum() / 2)
    tri = V[F]
    vol = float(np.einsum("ij,ij->i", tri[:, 0], np.cross(tri[:, 1], tri[:, 2])).sum() / 6)
    seen = set()
    for fi, f in enumerate(F):
        nrm = np.cross(V[f[1]] - V[f[0]], V[f[2]] - V[f[0]])
        nrm = nrm / np.linalg.norm(nrm)
        origin = V[f[0]]
        key = tuple(np.round(np.append(nrm * np.sign(nrm[np.argmax(np.abs(nrm))]), abs(np.dot(nrm, origin))), 6))
        if key in seen:
            continue
        seen.add(key)
        case = {"family": "noisy", "mesh": name, "placement": which, "face": int(fi)}
        t.evaluations += 1
        t.nontrivial_count += 1
        parts = []
        try:
            for sgn in (1, -1):
                sl = m.slice_plane(plane_origin=origin, plane_normal=sgn * nrm, cap=False)
                parts.append(0.0 if sl is None or len(sl.faces) == 0 else float(sl.area))
        except Exception as e:
            t.violation(f"slice_plane raises {type(e).__name__} [mesh in general position; plane of one of its faces]", case, {"exc": repr(e)[:200]})
            continue
        if abs(parts[0] + parts[1] - area) > 1e-9 * area:
            t.violation("slice_plane: areas of the two opposite slices do not add up [mesh in general position; plane of one of its faces]", case, {"got": parts, "want": area})
            continue
        if name in WATERTIGHT and name in CONVEX:
            vols = []
            try:
                for sgn in (1, -1):
                    sl = m.slice_plane(plane_origin=origin, plane_normal=sgn * nrm, cap=True)
                    if sl is None or len(sl.faces) == 0:
                        vols.append(0.0)
                    else:
                        tt = np.asarray(sl.triangles)
                        vols.append(float(np.einsum("ij,ij->i", tt[:, 0], np.cross(tt[:, 1], tt[:, 2])).sum() / 6))
            except Exception as e:
                t.violation(f"slice_plane(cap=True) raises {type(e).__name__} [mesh in general position; plane of one of its faces]", case, {"exc": repr(e)[:200]})
                continue
            if abs(vols[0] + vols[1] - vol) > 1e-7 * abs(vol):
                t.violation("slice_plane(cap=True): volumes of the two halves do not add up [mesh in general position; plane of one of its faces]", case, {"got": vols, "want": vol})
    t.sample({"family": "noisy", "mesh": name, "placement": which, "planes": len(seen)}, limit=1)
    return t


def replay(case):
    t = harness.Tally()
    if case.get("family") == "selftest":
        return [(k, d) for k, c, d in _selftest(None).violations]
    if case.get("family") == "noisy":
        tt = _w_noisy((case["mesh"], case["placement"]))
        return [(k, d) for k, c, d in tt.violations if c.get("face") == case["face"]]
    V, F = mesh_family()[case["mesh"]]
    V = np.asarray(V, dtype=float)
    F = np.asarray(F)
    n = tuple(case["normal"])
    if case["family"] == "plane":
        d = Fr(case["d"])
        check_plane(t, case["mesh"], V, F, n, d, "", "thorough", {k: case[k] for k in ("family", "mesh", "normal", "d")})
    else:
        check_multiplane(t, case["mesh"], V, F, n, plane_offsets(V, n, "thorough"), "thorough")
        check_multiplane(t, case["mesh"], V, F, n, plane_offsets(V, n, "quick"), "quick")
    return [(k, d) for k, c, d in t.violations]


def main(run):
    tier = run.tier
    fam = mesh_family()
    tasks = [(_selftest, None)] + [(_w, (name, n, tier)) for name in fam for n in DIRECTIONS]
    tasks += [(_w_noisy, (name, which)) for name in fam for which in (0, 1)]
    run.log(f"{len(tasks)} tasks")
    res = harness.pmap(_run, tasks)
    run.merge(res)
    cov = {
        "exhaustive": True,
        "meshes": list(fam),
        "directions": len(DIRECTIONS),
        "rule": "7 lattice meshes x 15 directions x every vertex height and points strictly between consecutive vertex heights (+ one outside); exact Fraction side classification; mesh_plane / section / section.to_2D in 4 frames (fitted, in-plane, two parallel offset frames) lifted back by the returned transform / section_multiplane (non-unit normals) / local_faces / slice_plane both sides / capped slices (all engines in thorough); every family mesh in two general-position placements (rotation with rational sines, scale, shift: coordinates inexact) x the plane of every one of its faces: opposite slices partition the area, capped halves of convex solids the volume. Non-trivial = plane properly crosses at least one triangle",
    }
    return run.finish(cov, assumptions=["coverage and closed-loop clauses are only demanded when the plane contains no mesh edge / no vertex", "on-surface distance by brute force over all triangles, tolerance 1e-9 x scale"])
