"""
C03 - mass properties equal the exact integrals over the enclosed solid.

Engine E2.  `triangles.mass_properties` is additive over triangles and each of its ten
integrals is a polynomial of degree <= 3 in each coordinate (assumption A1, re-checked at
run time by a 4th finite difference).  Every closed oriented surface is a sum of
tetrahedron boundaries whose internal faces cancel in opposite pairs, so exactness on
every closed surface follows from (i) the ten integrals of every "pillow" (a triangle and
its reverse) vanishing and (ii) being exact on every tetrahedron; both are polynomial
identities of per-variable degree <= 3, decided by a grid with 4 values per variable:
all pillows and all ordered tetrahedra with vertices in {0,1,2,3}^3 (thorough); quick
uses {0,1,2}^3 (complete for that lattice, not unisolvent).  Every case is appended to a
fixed reference tetrahedron of volume 385/6 so that the volume is never zero and all ten
integrals are observable through the public return values.
API layer: Trimesh.volume / mass / center_mass / moment_inertia / area /
moment_inertia_frame over a finite product of closed meshes x densities x centre-of-mass
overrides x frames, against exact rational integrals.
"""

import itertools
from fractions import Fraction as Fr

import numpy as np

from mc.core import harness

LEVEL = "exploration"

REF = np.array([[0, 0, 0], [5, 0, 0], [0, 7, 0], [0, 0, 11]], dtype=np.int64)
TET_FACES = [(0, 2, 1), (0, 1, 3), (1, 2, 3), (0, 3, 2)]  # outward for positive det


# ---------------------------------------------------------------------------
# exact oracle
# ---------------------------------------------------------------------------


def det3(a, b, c):
    return (
        a[0] * (b[1] * c[2] - b[2] * c[1])
        - a[1] * (b[0] * c[2] - b[2] * c[0])
        + a[2] * (b[0] * c[1] - b[1] * c[0])
    )


def tet_moments(p):
    """Signed integrals of 1, x_i, x_i x_j over the tetrahedron p[0..3] (ints) as Fractions."""
    p = [[int(x) for x in q] for q in p]
    e = [[p[k][i] - p[0][i] for i in range(3)] for k in (1, 2, 3)]
    V = Fr(det3(*e), 6)
    s = [sum(p[m][i] for m in range(4)) for i in range(3)]
    first = [V * Fr(s[i], 4) for i in range(3)]
    second = [[V * Fr(s[i] * s[j] + sum(p[m][i] * p[m][j] for m in range(4)), 20) for j in range(3)] for i in range(3)]
    return V, first, second


def add_m(a, b, sign=1):
    return (a[0] + sign * b[0], [x + sign * y for x, y in zip(a[1], b[1])], [[x + sign * y for x, y in zip(r, q)] for r, q in zip(a[2], b[2])])


ZERO = (Fr(0), [Fr(0)] * 3, [[Fr(0)] * 3 for _ in range(3)])


def surface_moments(tris):
    """Exact moments of the solid enclosed by a closed oriented triangle surface: cone from the origin."""
    tot = ZERO
    for a, b, c in tris:
        tot = add_m(tot, tet_moments([(0, 0, 0), a, b, c]))
    return tot


def tet_triangles(p):
    return [[p[i] for i in f] for f in TET_FACES]


REF_TRIS = np.array(tet_triangles(REF.tolist()), dtype=np.float64)
REF_M = tet_moments(REF)


def observed_integrals(tris):
    """Ten integrals as observable through the public return values of mass_properties."""
    from trimesh import triangles as tg

    a = tg.mass_properties(tris, center_mass=np.zeros(3))
    b = tg.mass_properties(tris)
    V = float(a["volume"])
    I = np.asarray(a["inertia"])  # about the origin
    sxx = (I[1, 1] + I[2, 2] - I[0, 0]) / 2
    syy = (I[0, 0] + I[2, 2] - I[1, 1]) / 2
    szz = (I[0, 0] + I[1, 1] - I[2, 2]) / 2
    second = np.array([[sxx, -I[0, 1], -I[0, 2]], [-I[1, 0], syy, -I[1, 2]], [-I[2, 0], -I[2, 1], szz]])
    first = np.asarray(b["center_mass"]) * float(b["volume"])
    return V, first, second, float(b["volume"]), float(b["mass"]), float(a["mass"])


def compare_integrals(t, tris, want, case, what):
    V, first, second, Vb, mass_b, mass_a = observed_integrals(tris)
    scale = 1e-9
    wv = float(want[0])
    names = []
    if abs(V - wv) > scale * max(1, abs(wv)) or abs(Vb - wv) > scale * max(1, abs(wv)):
        names.append("volume")
    wf = np.array([float(x) for x in want[1]])
    if np.abs(first - wf).max() > scale * max(1.0, np.abs(wf).max()):
        names.append("first moment (centre of mass)")
    ws = np.array([[float(x) for x in r] for r in want[2]])
    d = np.abs(second - ws)
    tol = scale * max(1.0, np.abs(ws).max())
    if (np.diag(d) > tol).any():
        names.append("second moment diagonal (inertia)")
    if (d[~np.eye(3, dtype=bool)] > tol).any():
        names.append("product of inertia")
    if abs(mass_b - wv) > scale * max(1, abs(wv)):
        names.append("mass")
    for n in names:
        t.violation(f"mass_properties: {n} differs from the exact integral [{what}]", case,
                    {"got": {"volume": V, "first": first, "second": second}, "want": {"volume": wv, "first": wf, "second": ws}})
    return not names


# ---------------------------------------------------------------------------
# workers
# ---------------------------------------------------------------------------


def _w_tets(task):
    """All tetrahedra whose first vertex is `p0` (index into the lattice), other three free."""
    n, i0, i1 = task
    t = harness.Tally()
    pts = list(itertools.product(range(n), repeat=3))
    p0 = pts[i0]
    for p1 in [pts[i1]]:
        for p2 in pts:
            for p3 in pts:
                p = [p0, p1, p2, p3]
                tris = np.concatenate([REF_TRIS, np.array(tet_triangles(p), dtype=np.float64)])
                want = add_m(REF_M, tet_moments(p))
                t.evaluations += 1
                degenerate = want[0] == REF_M[0]
                if not degenerate:
                    t.nontrivial_count += 1
                compare_integrals(t, tris, want, {"family": "tetrahedron", "points": p}, "lattice tetrahedron" + (" of zero volume" if degenerate else ""))
    t.sample({"family": "tetrahedron", "points": [p0, pts[1], pts[n], pts[n * n]]}, limit=1)
    return t


def _w_pillows(task):
    n, i0 = task
    t = harness.Tally()
    pts = list(itertools.product(range(n), repeat=3))
    a = pts[i0]
    for b in pts:
        for c in pts:
            tris = np.concatenate([REF_TRIS, np.array([[a, b, c], [c, b, a]], dtype=np.float64)])
            t.evaluations += 1
            if len({a, b, c}) == 3:
                t.nontrivial_count += 1
            compare_integrals(t, tris, REF_M, {"family": "pillow", "points": [a, b, c]}, "triangle + its reverse must cancel")
    return t


def _w_degree(_):
    """Assumption A1: 4th finite difference of every observable integral along every coordinate is zero."""
    t = harness.Tally()
    base = np.array(tet_triangles([(0, 1, 2), (3, 1, 0), (1, 4, 2), (2, 0, 5)]), dtype=np.float64)
    for tri in range(4):
        for v in range(3):
            for ax in range(3):
                vals = []
                for k in range(5):
                    tr = base.copy()
                    tr[tri, v, ax] += k
                    V, first, second, *_ = observed_integrals(np.concatenate([REF_TRIS, tr]))
                    vals.append(np.concatenate([[V], first, second.ravel()]))
                vals = np.array(vals)
                d4 = vals[0] - 4 * vals[1] + 6 * vals[2] - 4 * vals[3] + vals[4]
                t.evaluations += 1
                t.nontrivial_count += 1
                if np.abs(d4).max() > 1e-6:
                    t.violation("assumption A1 fails: an integral is not a polynomial of degree <= 3 in a coordinate", {"family": "degree", "tri": tri, "vertex": v, "axis": ax}, {"d4": d4})
    return t


# --- API layer ---------------------------------------------------------------


def cube_tris(o, s=1):
    """12 outward triangles of the axis-aligned cube with corner o and side s."""
    o = np.array(o)
    c = [tuple(int(x) for x in (o + s * np.array(d))) for d in itertools.product((0, 1), repeat=3)]
    # index by (x,y,z) bits
    idx = {d: i for i, d in enumerate(itertools.product((0, 1), repeat=3))}
    quads = [
        [(0, 0, 0), (0, 0, 1), (0, 1, 1), (0, 1, 0)],  # x = 0 (outward -x)
        [(1, 0, 0), (1, 1, 0), (1, 1, 1), (1, 0, 1)],  # x = 1
        [(0, 0, 0), (1, 0, 0), (1, 0, 1), (0, 0, 1)],  # y = 0
        [(0, 1, 0), (0, 1, 1), (1, 1, 1), (1, 1, 0)],  # y = 1
        [(0, 0, 0), (0, 1, 0), (1, 1, 0), (1, 0, 0)],  # z = 0
        [(0, 0, 1), (1, 0, 1), (1, 1, 1), (0, 1, 1)],  # z = 1
    ]
    tris = []
    for q in quads:
        a, b, cc, d = [c[idx[k]] for k in q]
        tris += [[a, b, cc], [a, cc, d]]
    return tris


def api_meshes():
    tet = tet_triangles([(0, 0, 0), (2, 0, 0), (0, 3, 0), (1, 1, 4)])
    out = {
        "tetrahedron": tet,
        "cube": cube_tris((1, 2, 3), 2),
        "two disjoint bodies": tet + cube_tris((5, 0, 0), 1),
        "two overlapping shells": cube_tris((0, 0, 0), 2) + cube_tris((1, 1, 1), 2),
        "inverted tetrahedron": [t[::-1] for t in tet],
        "cube with inverted inner cube (cavity)": cube_tris((0, 0, 0), 4) + [t[::-1] for t in cube_tris((1, 1, 1), 1)],
    }
    # genus 1: ring of 8 unit cubes around a hole (3x3 minus centre), merged as separate closed shells
    ring = []
    for x, y in itertools.product(range(3), repeat=2):
        if (x, y) != (1, 1):
            ring += cube_tris((x, y, 0), 1)
    out["ring of 8 cubes (overlapping faces)"] = ring
    return out


def rotations24():
    mats = []
    for perm in itertools.permutations(range(3)):
        for signs in itertools.product((1, -1), repeat=3):
            m = np.zeros((3, 3), dtype=int)
            for i, (p, s) in enumerate(zip(perm, signs)):
                m[i, p] = s
            if round(np.linalg.det(m)) == 1:
                mats.append(m)
    return mats


def mesh_from_tris(tris):
    import trimesh

    tri = np.array(tris, dtype=np.float64)
    return trimesh.Trimesh(**trimesh.triangles.to_kwargs(tri), process=False)


def _w_api(task):
    name, tris, only_merged, only_density = task
    import trimesh

    t = harness.Tally()
    V, first, second = surface_moments(tris)
    area2 = [sum(x * x for x in _cross(a, b, c)) for a, b, c in tris]  # squared doubled areas (ints)
    area = sum(np.sqrt(float(q)) for q in area2) / 2.0
    rots = rotations24()
    for merged in (False, True):
        if only_merged is not None and merged != only_merged:
            continue
        for di, density in enumerate((None, Fr(1, 2), Fr(2), Fr(7), Fr(0), Fr(-3))):
            if only_density is not None and di != only_density:
                continue
            for cm in (None, (0, 0, 0), (1, 2, 3), (-2, 5, 1)):
                m = mesh_from_tris(tris)
                if merged:
                    m.merge_vertices()
                if density is not None:
                    m.density = float(density)
                cm_arg = None
                if cm is not None:
                    # the caller keeps (and later edits) the array the override was assigned from
                    cm_arg = np.array(cm, dtype=np.float64)
                    m.center_mass = cm_arg
                rho = Fr(1) if density is None else density
                case = {"family": "api", "mesh": name, "merged": merged, "density": None if density is None else float(density), "center_mass": cm}
                t.evaluations += 1
                t.nontrivial_count += 1
                wcm = [f / V for f in first] if cm is None else [Fr(x) for x in cm]
                # second moments about wcm
                S = [[second[i][j] - wcm[i] * first[j] - wcm[j] * first[i] + wcm[i] * wcm[j] * V for j in range(3)] for i in range(3)]
                tr = S[0][0] + S[1][1] + S[2][2]
                I = np.array([[float(rho * ((tr if i == j else 0) - S[i][j])) for j in range(3)] for i in range(3)])
                tag = f"{'override' if cm is not None else 'computed'} centre, density {'default' if density is None else 'set'}"

                def near(got, want, what):
                    got = np.asarray(got, dtype=float)
                    want = np.asarray(want, dtype=float)
                    if got.shape != want.shape or np.abs(got - want).max() > 1e-9 * max(1.0, np.abs(want).max()):
                        t.violation(f"Trimesh.{what} differs from the exact value [{name}; {tag}]", case, {"got": got, "want": want})

                near(m.volume, float(V), "volume")
                near(m.mass, float(rho * V), "mass")
                near(m.center_mass, [float(x) for x in wcm], "center_mass")
                if cm is None:
                    near(m.moment_inertia, I, "moment_inertia")
                    Icm = I
                else:
                    # with an overridden centre the statement fixes only that the override is honoured
                    # and that other frames follow the parallel-axis / rotation law from the reported tensor
                    Icm = np.asarray(m.moment_inertia, dtype=float)
                    if not np.allclose(Icm, Icm.T, atol=1e-9 * max(1.0, np.abs(Icm).max())):
                        t.violation(f"Trimesh.moment_inertia is not symmetric [{name}; {tag}]", case, {"got": Icm})
                near(m.area, area, "area")
                if cm_arg is not None:
                    # the override is the value that was assigned, not whatever the caller's array holds later
                    before = (np.array(m.center_mass, dtype=float), np.array(m.moment_inertia, dtype=float))
                    cm_arg += 1.5
                    after = (np.array(m.center_mass, dtype=float), np.array(m.moment_inertia, dtype=float))
                    cm_arg -= 1.5
                    if np.abs(after[0] - before[0]).max() > 0 or np.abs(after[1] - before[1]).max() > 1e-9 * max(1.0, np.abs(before[1]).max()):
                        t.violation("the centre-of-mass override follows later edits of the array it was assigned from", case, {"before": before[0], "after": after[0]})
                if density is None or density == 2:
                    # frames: inertia about point tt expressed in axes R
                    for R in rots[:: (1 if cm is None else 5)]:
                        for tt in ((0, 0, 0), (1, 0, 0), (0, -2, 0), (3, 1, -1), (0, 0, 5)):
                            T = np.eye(4)
                            T[:3, :3] = R
                            T[:3, 3] = tt
                            a = np.array([float(Fr(tt[i]) - wcm[i]) for i in range(3)])
                            It = Icm + float(rho * V) * (a.dot(a) * np.eye(3) - np.outer(a, a))
                            want = R.T @ It @ R
                            t.evaluations += 1
                            T0 = T.copy()
                            got = m.moment_inertia_frame(T)
                            again = m.moment_inertia_frame(T)
                            if not (T == T0).all() or not np.allclose(got, again, rtol=1e-12, atol=1e-12):
                                t.violation("Trimesh.moment_inertia_frame modifies the matrix it is given / is not repeatable", dict(case, frame=T0.tolist()), {"frame_after": T, "first": got, "second": again})
                            if np.abs(np.asarray(got) - want).max() > 1e-9 * max(1.0, np.abs(want).max()):
                                t.violation(f"Trimesh.moment_inertia_frame violates the parallel-axis / rotation law [{name}; {tag}]", dict(case, frame=T.tolist()), {"got": got, "want": want})
    t.sample({"family": "api", "mesh": name, "triangles": len(tris)}, limit=1)
    return t


def _cross(a, b, c):
    u = [b[i] - a[i] for i in range(3)]
    v = [c[i] - a[i] for i in range(3)]
    return [u[1] * v[2] - u[2] * v[1], u[2] * v[0] - u[0] * v[2], u[0] * v[1] - u[1] * v[0]]


def _w_selftest(_):
    """Oracle self-test: tetrahedron moments against a second formulation (numerical cubature by affine map of monomial integrals)."""
    t = harness.Tally()
    import sympy as sp

    x, y, z = sp.symbols("x y z")
    p = [(0, 0, 0), (2, 0, 0), (0, 3, 0), (1, 1, 4)]
    V, first, second = tet_moments(p)
    # integrate over the reference simplex with the affine map
    u, v, w = sp.symbols("u v w")
    P = [sp.Matrix(q) for q in p]
    X = P[0] + (P[1] - P[0]) * u + (P[2] - P[0]) * v + (P[3] - P[0]) * w
    J = sp.Matrix.hstack(P[1] - P[0], P[2] - P[0], P[3] - P[0]).det()

    def integ(f):
        return sp.integrate(sp.integrate(sp.integrate(f * J, (w, 0, 1 - u - v)), (v, 0, 1 - u)), (u, 0, 1))

    t.evaluations += 1
    t.nontrivial_count += 2
    ok = sp.Rational(V.numerator, V.denominator) == integ(1)
    for i in range(3):
        ok &= sp.Rational(first[i].numerator, first[i].denominator) == integ(X[i])
        for j in range(3):
            ok &= sp.Rational(second[i][j].numerator, second[i][j].denominator) == integ(X[i] * X[j])
    if not ok:
        t.violation("oracle self-test failed (harness bug, not a library defect)", {"family": "selftest"}, {})
    return t


def _run(task):
    return task[0](task[1])


def replay(case):
    t = harness.Tally()
    fam = case["family"]
    if fam == "tetrahedron":
        p = [tuple(q) for q in case["points"]]
        tris = np.concatenate([REF_TRIS, np.array(tet_triangles(p), dtype=np.float64)])
        want = add_m(REF_M, tet_moments(p))
        compare_integrals(t, tris, want, case, "lattice tetrahedron" + (" of zero volume" if want[0] == REF_M[0] else ""))
    elif fam == "pillow":
        a, b, c = [tuple(q) for q in case["points"]]
        tris = np.concatenate([REF_TRIS, np.array([[a, b, c], [c, b, a]], dtype=np.float64)])
        compare_integrals(t, tris, REF_M, case, "triangle + its reverse must cancel")
    elif fam == "api":
        t.merge(_w_api((case["mesh"], api_meshes()[case["mesh"]], None, None)))
    elif fam == "degree":
        t.merge(_w_degree(None))
    return [(k, d) for k, c, d in t.violations]


def main(run):
    n = 3 if run.tier == "quick" else 4
    tasks = [(_w_selftest, None), (_w_degree, None)]
    tasks += [(_w_api, (k, v, mg, di)) for k, v in api_meshes().items() for mg in (False, True) for di in range(6)]
    tasks += [(_w_pillows, (4, i)) for i in range(64)]  # pillows always on the unisolvent 4-lattice
    tasks += [(_w_tets, (n, i, j)) for i in range(n**3) for j in range(n**3)]
    run.log(f"{len(tasks)} tasks, lattice {n}")
    r = run.seed % len(tasks)
    order = tasks[r:] + tasks[:r]
    res = harness.pmap(_run, order)
    res = res[len(tasks) - r :] + res[: len(tasks) - r]
    run.merge(res)
    cov = {
        "exhaustive": True,
        "lattice": n,
        "unisolvent_for_degree_3": n >= 4,
        "rule": f"all 4^9 pillows on {{0..3}}^3; all {n}^12 ordered tetrahedra on {{0..{n-1}}}^3 (each appended to a reference tetrahedron of volume 385/6); API product meshes x merged x density x centre override x 24 rotations x 5 translations; non-trivial = non-degenerate",
    }
    return run.finish(cov, assumptions=[
        "A1: each integral is a polynomial of per-coordinate degree <= 3 (re-checked by 4th finite differences)",
        "closed oriented surfaces are sums of tetrahedron boundaries with internal faces cancelling in opposite pairs",
        "binary64 evaluation on lattice inputs compared with Fraction values to rtol 1e-9",
    ])
