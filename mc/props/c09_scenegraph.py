"""
C09 - scene-graph transforms are the product of the current edges along the path.

Explicit-state BFS over histories of real `SceneGraph` objects against a dict-based
reference forest (DESIGN 3.C09).  Plus a stateless exhaustive enumeration of
`kwargs_to_matrix` forms (matrix / quaternion / axis-angle / translation).
"""

import itertools

import numpy as np

from mc.core import explorer, harness

LEVEL = "model_checking"

# frame names are arbitrary hashables: include a falsy one (the integer 0)
FRAMES = ["world", "a", "b", 0]
UNKNOWN = "zz"


def _rot(axis, k):
    """Exact 90-degree-multiple rotation about a coordinate axis."""
    c, s = [(1, 0), (0, 1), (-1, 0), (0, -1)][k % 4]
    m = np.eye(4)
    i, j = [(1, 2), (2, 0), (0, 1)][axis]
    m[i, i] = c
    m[j, j] = c
    m[i, j] = -s
    m[j, i] = s
    return m


def _mat(name):
    if name == "M1":
        m = _rot(2, 1)
        m[:3, 3] = [1, 0, 0]
    elif name == "M2":
        # not rigid: rotation about x times uniform scale 2 (powers of two: inverse is exact)
        m = _rot(0, 1)
        m[:3, :3] *= 2.0
        m[:3, 3] = [0, 2, 0]
    elif name == "S":
        m = np.diag([2.0, 2.0, 2.0, 1.0])
        m[:3, 3] = [0, 0, 1]
    elif name in ("L", "Le"):
        # two placements far from the origin that differ by 2e-6 of their size (5 mm at 2.5 km):
        # an update from one to the other is small relative to the entries but not to any absolute tolerance
        m = _rot(1, 1)
        m[:3, 3] = [2500.0 if name == "L" else 2500.005, 0, -4.0]
    else:
        raise KeyError(name)
    return m


MATS = {n: _mat(n) for n in ["M1", "M2", "S", "L", "Le"]}
GEOM = {"a": "ga", "b": "gb"}  # geometry attached by updates of these children


# ---------------------------------------------------------------------------
# reference forest
# ---------------------------------------------------------------------------


class Ref:
    def __init__(self):
        self.parent = {}
        self.matrix = {}
        self.nodes = []  # insertion ordered
        self.geometry = {}
        self.base = "world"

    def _add_node(self, n):
        if n not in self.nodes:
            self.nodes.append(n)

    def ancestors(self, n):
        out = [n]
        while out[-1] in self.parent:
            out.append(self.parent[out[-1]])
        return out

    def update(self, child, parent, m, geometry=None):
        old = self.parent.get(child)
        if old is not None and old != parent:
            del self.matrix[(old, child)]
        self.parent[child] = parent
        self.matrix[(parent, child)] = m
        self._add_node(parent)
        self._add_node(child)
        if geometry is not None:
            self.geometry[child] = geometry

    def would_cycle(self, child, parent):
        return child == parent or child in self.ancestors(parent)

    def remove(self, x):
        if x not in self.nodes:
            return
        for c in [c for c, p in self.parent.items() if p == x]:
            del self.parent[c]
        self.parent.pop(x, None)
        for e in [e for e in self.matrix if x in e]:
            del self.matrix[e]
        self.nodes.remove(x)
        self.geometry.pop(x, None)

    def to_root(self, n):
        """Matrix mapping frame n coordinates into its root frame, and the root."""
        chain = self.ancestors(n)
        m = np.eye(4)
        for c, p in zip(chain[:-1], chain[1:]):
            m = self.matrix[(p, c)] @ m
        return m, chain[-1]

    def table(self, frames):
        """All T(x, y) at once (roots computed once per frame)."""
        roots = {}
        for n in frames:
            if n in self.nodes:
                m, r = self.to_root(n)
                roots[n] = (m, np.linalg.inv(m), r)
        out = {}
        for x in frames:
            for y in frames:
                if x == y:
                    out[(x, y)] = np.eye(4)
                elif x in roots and y in roots and roots[x][2] == roots[y][2]:
                    out[(x, y)] = roots[x][1] @ roots[y][0]
                else:
                    out[(x, y)] = None
        return out

    def transform(self, frm, to):
        """T(frm, to): product of edges along the path frm -> to; None if not connected."""
        if frm == to:
            return np.eye(4)
        if frm not in self.nodes or to not in self.nodes:
            return None
        a, ra = self.to_root(frm)
        b, rb = self.to_root(to)
        if ra != rb:
            return None
        return np.linalg.inv(a) @ b


# ---------------------------------------------------------------------------
# the system
# ---------------------------------------------------------------------------


class Ctx:
    pass


def _new_graph():
    from trimesh.scene.transforms import SceneGraph

    return SceneGraph(base_frame="world")


class System:
    def __init__(self, frames=FRAMES, mats=("M1", "M2"), queries="all"):
        self.frames = list(frames)
        self.mats = list(mats)
        self.queries = queries

    def starts(self):
        return ["empty"]

    def build(self, start, hist):
        ctx = Ctx()
        ctx.g = _new_graph()
        ctx.ref = Ref()
        ctx.obs = []
        for a in hist:
            ctx.obs.append(self.apply(ctx, a))
        return ctx

    def actions(self, ctx):
        ref = ctx.ref
        acts = []
        for child, parent in itertools.permutations(self.frames, 2):
            if ref.would_cycle(child, parent):
                continue
            for m in self.mats:
                acts.append(["update", child, parent, m])
        for m in self.mats:
            if not ref.would_cycle(0, ref.base):
                acts.append(["setitem", 0, m])
        for x in self.frames:
            acts.append(["remove", x])
        for x in self.frames:
            if x != ref.base:
                acts.append(["base", x])
        acts.append(["rmgeom", "ga"])
        # queries as actions: they fill both caches
        for x, y in itertools.product(self.frames, repeat=2):
            acts.append(["get", x, y])
        acts.append(["get", UNKNOWN, "world"])
        acts.append(["get", "a", UNKNOWN])
        # the default source frame: get(frame_to) / graph[frame_to] mean "from the current base frame"
        for x in self.frames:
            acts.append(["getdefault", x])
        acts += [["nodes"], ["flat"], ["edgelist"], ["copy"]]
        return acts

    def cost(self, a):
        if a[0] in ("get", "getdefault", "nodes", "flat", "edgelist", "copy"):
            return 1
        return 0

    # the real call and the reference call
    def apply(self, ctx, a):
        g, ref = ctx.g, ctx.ref
        op = a[0]
        try:
            if op == "update":
                _, child, parent, m = a
                geom = GEOM.get(child)
                mine = np.array(MATS[m], dtype=np.float64)
                if geom is None:
                    g.update(child, parent, matrix=mine)
                else:
                    g.update(child, parent, matrix=mine, geometry=geom)
                # the caller re-uses its buffer for the next pose: the graph holds the values it was given
                try:
                    mine[:3, 3] += 7.0
                    mine[0, 0] = -3.0
                except ValueError:
                    pass
                ref.update(child, parent, MATS[m], geom)
                return None
            if op == "setitem":
                _, child, m = a
                mine = np.array(MATS[m], dtype=np.float64)
                g[child] = mine
                try:
                    mine[:3, 3] += 7.0
                except ValueError:
                    pass
                ref.update(child, ref.base, MATS[m])
                return None
            if op == "remove":
                g.transforms.remove_node(a[1])
                ref.remove(a[1])
                return None
            if op == "base":
                g.base_frame = a[1]
                ref.base = a[1]
                return None
            if op == "rmgeom":
                g.remove_geometries(a[1])
                for k in [k for k, v in ref.geometry.items() if v == a[1]]:
                    del ref.geometry[k]
                return None
            if op == "get":
                # get(frame_to=y, frame_from=x) is T(x, y)
                return _obs_get(g, a[1], a[2])
            if op == "getdefault":
                return _obs_get_default(g, a[1])
            if op == "nodes":
                return sorted(str(n) for n in g.nodes)
            if op == "flat":
                return _obs_flat(g)
            if op == "edgelist":
                from trimesh.scene.transforms import SceneGraph

                n = SceneGraph(base_frame=g.base_frame)
                n.from_edgelist(g.to_edgelist())
                ctx.g = n
                # an edge list carries edges only: frames without any edge and the
                # geometry name of a frame without an incoming edge cannot be in it
                inedge = {x for e in ref.matrix for x in e}
                ref.nodes = [x for x in ref.nodes if x in inedge]
                ref.geometry = {k: v for k, v in ref.geometry.items() if k in ref.parent}
                return None
            if op == "copy":
                ctx.g = g.copy()
                return None
        except Exception as e:
            return ("raises", type(e).__name__)
        raise KeyError(op)

    def canon(self, ctx):
        g, ref = ctx.g, ctx.ref
        f = g.transforms

        def mid(m):
            for k, v in MATS.items():
                if m.shape == v.shape and (m == v).all():
                    return k
            return m.tobytes()

        edges = tuple(
            sorted((str(k), mid(v["matrix"]), v.get("geometry")) for k, v in f.edge_data.items())
        )
        # hash memo: absent / valid / stale; and whether the cache would survive the next verify.
        # These are private fields known by name; if a refactor moved them the whole private state is
        # digested generically instead (finer, never coarser).
        try:
            memo = getattr(f, "_hash", None)  # the attribute only exists after the first hash
            f._hash = None
            true = hash(f)
            f._hash = memo
            memo_state = "none" if memo is None else ("ok" if memo == true else "STALE")
            effective = true if memo is None else memo
            # entries that will actually be served: none if the cache is flushed on next access
            live = g._cache.id_current == effective
            private = (
                tuple(sorted((str(k), str(v)) for k, v in f._cache.items())),
                tuple(sorted(str(k) for k in g._cache.cache.keys())) if live else (),
                memo_state,
            )
        except AttributeError:
            private = ("generic", harness.short_hash(repr(harness.generic_state(g, depth=4))))
        return (
            tuple(sorted(f.parents.items(), key=str)),
            edges,
            tuple((k, v.get("geometry")) for k, v in f.node_data.items()),
            private,
            g.base_frame,
            # the model side (so that impl-equal / model-different states are not merged)
            tuple(sorted(ref.parent.items(), key=str)),
            tuple(sorted(((k, mid(v)) for k, v in ref.matrix.items()), key=str)),
            tuple(ref.nodes),
            tuple(sorted(ref.geometry.items(), key=str)),
            ref.base,
        )

    # invariant on a fresh replay --------------------------------------------------
    def check(self, start, hist):
        out = []
        for order in (0, 1):
            ctx = self.build(start, hist)
            # always over the full frame list (not the action alphabet of this search): a replay file then
            # reproduces the same first divergence whatever search found it
            v = _invariant(ctx, FRAMES, reverse=bool(order))
            if v:
                out.extend(v)
                break
        # classify by the last action (the transition that exposed it)
        if out:
            last = hist[-1] if hist else ["init"]
            out = [(f"{k} [last action: {last[0]}]", dict(d, last=last)) for k, d in out[:1]]
        return out


def _obs_get(g, frm, to):
    try:
        m, geom = g.get(frame_to=to, frame_from=frm)
        return ("ok", np.array(m), geom)
    except Exception as e:
        return ("raises", type(e).__name__)


def _obs_get_default(g, to):
    try:
        m, geom = g.get(to)
        m2, geom2 = g[to]
        if geom2 != geom or np.shape(m2) != np.shape(m) or not (np.asarray(m2) == np.asarray(m)).all():
            return ("inconsistent", "get(x) and graph[x] differ")
        return ("ok", np.array(m), geom)
    except Exception as e:
        return ("raises", type(e).__name__)


def _obs_flat(g):
    try:
        f = g.to_flattened()
        return ("ok", {k: (np.array(v["transform"]), v["geometry"]) for k, v in f.items()})
    except Exception as e:
        return ("raises", type(e).__name__)


TOL = 1e-9
# kwargs forms include angles of 1e-9: SceneGraph.get filters edges within 1e-8 of the
# identity out of the product (its documented identity filtering), so 2 edges may lose 2e-8
FTOL = 4e-8


def _close(a, b, tol=TOL):
    return a.shape == b.shape and float(np.abs(a - b).max()) <= tol * max(1.0, float(np.abs(b).max()))


def _classify(hist):
    """Name the class of history: which kinds of mutators preceded the failing query."""
    kinds = []
    seen_parent = {}
    for a in hist:
        if a[0] in ("update", "setitem"):
            child = a[1]
            parent = a[2] if a[0] == "update" else "<base>"
            if child in seen_parent and seen_parent[child] != parent:
                k = "reparent"
            elif child in seen_parent:
                k = "overwrite"
            else:
                k = "create"
            seen_parent[child] = parent
        elif a[0] == "remove":
            k = "remove"
            seen_parent.pop(a[1], None)
            for c in [c for c, p in seen_parent.items() if p == a[1]]:
                del seen_parent[c]
        elif a[0] == "get":
            k = "get-unknown" if UNKNOWN in a[1:] else "get"
        elif a[0] == "getdefault":
            k = "get"
        else:
            k = a[0]
        if k not in kinds:
            kinds.append(k)
    # order-insensitive, create/get are the boring defaults
    interesting = [k for k in kinds if k not in ("create",)]
    return "after{" + ",".join(sorted(interesting)) + "}"


def _invariant(ctx, frames, reverse=False):
    """Compare every query of the real graph with the reference forest."""
    g, ref = ctx.g, ctx.ref
    viol = []
    pairs = list(itertools.product(frames, repeat=2))
    if reverse:
        pairs = pairs[::-1]
    got = {}
    table = ref.table(frames)
    for x, y in pairs:
        want = table[(x, y)]
        o = _obs_get(g, x, y)
        got[(x, y)] = o
        rel = "same" if x == y else "pair"
        if want is None:
            if o[0] == "ok":
                viol.append(
                    (
                        f"get({rel}) answers for frames that are not connected",
                        {"from": x, "to": y, "got": o[1]},
                    )
                )
        else:
            if o[0] != "ok":
                viol.append(
                    (f"get({rel}) raises for connected frames", {"from": x, "to": y, "got": o[1]})
                )
            elif not _close(o[1], want):
                viol.append(
                    (
                        f"get({rel}) differs from product of current edges",
                        {"from": x, "to": y, "got": o[1], "want": want},
                    )
                )
            elif o[2] != ref.geometry.get(y):
                viol.append(
                    (
                        "get() reports wrong geometry name",
                        {"from": x, "to": y, "got": o[2], "want": ref.geometry.get(y)},
                    )
                )
        if viol:
            return viol
    # the default source frame is the *current* base frame
    for y in (frames[::-1] if reverse else frames):
        want = table.get((ref.base, y))
        o = _obs_get_default(g, y)
        if o[0] == "inconsistent":
            return [("get(x) and graph[x] disagree", {"to": y})]
        if want is None:
            if o[0] == "ok":
                return [("get(default frame) answers for a frame that is not connected to the base frame", {"to": y, "got": o[1]})]
        elif o[0] != "ok":
            return [("get(default frame) raises for a frame connected to the base frame", {"to": y, "got": o[1]})]
        elif not _close(o[1], want):
            return [("get(default frame) is not the transform from the current base frame", {"to": y, "base": ref.base, "got": o[1], "want": want})]
    # algebraic consequences on the answers actually returned
    for x, y in pairs:
        if got[(x, y)][0] == "ok" and got.get((y, x), ("no",))[0] == "ok":
            if not _close(got[(x, y)][1] @ got[(y, x)][1], np.eye(4)):
                return [("T(a,b).T(b,a) != I", {"a": x, "b": y})]
    # nodes
    try:
        nodes = sorted(str(n) for n in g.nodes)
    except Exception as e:
        return [("nodes raises", {"exc": repr(e)})]
    if nodes != sorted(str(n) for n in ref.nodes):
        return [("nodes differ from frames in the forest", {"got": nodes, "want": sorted(str(n) for n in ref.nodes)})]
    try:
        ng = sorted(g.nodes_geometry, key=str)
        gn = {k: sorted(v, key=str) for k, v in g.geometry_nodes.items()}
    except Exception as e:
        return [("nodes_geometry raises", {"exc": repr(e)})]
    if ng != sorted(ref.geometry, key=str):
        return [("nodes_geometry wrong", {"got": ng, "want": sorted(ref.geometry, key=str)})]
    wantgn = {}
    for n, ge in ref.geometry.items():
        wantgn.setdefault(ge, []).append(n)
    if gn != {k: sorted(v, key=str) for k, v in wantgn.items()}:
        return [("geometry_nodes wrong", {"got": gn, "want": wantgn})]
    # flattened: frames connected to base with reference matrices
    connected = {
        n: (table[(ref.base, n)] if (ref.base, n) in table else ref.transform(ref.base, n))
        for n in ref.nodes
        if n != ref.base
    }
    all_conn = all(v is not None for v in connected.values()) and (
        ref.base in ref.nodes or not ref.nodes
    )
    o = _obs_flat(g)
    if all_conn:
        if o[0] != "ok":
            return [("to_flattened raises although every frame is connected to base", {"got": o[1]})]
        if sorted(o[1], key=str) != sorted(connected, key=str):
            return [("to_flattened lists wrong frames", {"got": sorted(o[1], key=str), "want": sorted(connected, key=str)})]
        for n, (m, ge) in o[1].items():
            if not _close(m, connected[n]) or ge != ref.geometry.get(n):
                return [("to_flattened matrix differs", {"node": n, "got": m, "want": connected[n]})]
    elif o[0] == "ok":
        want = {n for n, v in connected.items() if v is not None}
        for n, (m, ge) in o[1].items():
            if n not in want or not _close(m, connected[n]):
                return [("to_flattened lists a disconnected frame", {"node": n})]
    # edge list export rebuilds an equivalent graph
    try:
        from trimesh.scene.transforms import SceneGraph

        n2 = SceneGraph(base_frame=g.base_frame)
        n2.from_edgelist(g.to_edgelist())
    except Exception as e:
        return [("edgelist export/import raises", {"exc": repr(e)})]
    for x, y in pairs:
        want = table[(x, y)]
        o = _obs_get(n2, x, y)
        if (want is None) != (o[0] != "ok") or (want is not None and not _close(o[1], want)):
            return [
                (
                    "graph rebuilt from to_edgelist answers differently",
                    {"from": x, "to": y, "got": o[1], "want": want},
                )
            ]
        # an edge list can only carry the geometry of frames that have an incoming edge
        if want is not None and y in ref.parent and o[2] != ref.geometry.get(y):
            return [("graph rebuilt from to_edgelist has different geometry", {"to": y, "got": o[2]})]
    # copy answers identically
    try:
        c = g.copy()
    except Exception as e:
        return [("copy raises", {"exc": repr(e)})]
    for x, y in pairs:
        want = table[(x, y)]
        o = _obs_get(c, x, y)
        if (want is None) != (o[0] != "ok") or (want is not None and not _close(o[1], want)):
            return [("copy() answers differently", {"from": x, "to": y})]
    return []


# ---------------------------------------------------------------------------
# stateless part: every way of specifying an edge
# ---------------------------------------------------------------------------


def _forms_worker(task):
    from trimesh.scene.transforms import SceneGraph

    t = harness.Tally()
    axes, angles, translations = task
    for ax in axes:
        n = np.array(ax, dtype=float)
        n /= np.linalg.norm(n)
        for ang in angles:
            # Rodrigues
            K = np.array([[0, -n[2], n[1]], [n[2], 0, -n[0]], [-n[1], n[0], 0]])
            R = np.eye(3) + np.sin(ang) * K + (1 - np.cos(ang)) * (K @ K)
            q = np.concatenate([[np.cos(ang / 2)], np.sin(ang / 2) * n])
            for tr in translations:
                want = np.eye(4)
                want[:3, :3] = R
                if tr is not None:
                    want[:3, 3] = tr
                forms = {
                    "matrix": dict(matrix=want.copy()),
                    "quaternion": dict(quaternion=q.copy()),
                    # a quaternion need not be normalised: it describes the rotation of its direction
                    "quaternion (not unit)": dict(quaternion=q * 3.0),
                    "quaternion (negated, short)": dict(quaternion=q * -0.25),
                    "axis-angle": dict(axis=list(ax), angle=float(ang)),
                }
                if abs(ang) < 1e-15:
                    forms["translation-only"] = {}
                for fname, kw in forms.items():
                    kw = dict(kw)
                    if tr is not None and fname != "matrix":
                        kw["translation"] = list(tr)
                    g = SceneGraph()
                    g.update("a", "world", **kw)
                    g.update("b", "a", **kw)
                    t.evaluations += 1
                    if abs(ang) > 1e-15 or tr is not None:
                        t.nontrivial_count += 1
                    got1 = g.get("a")[0]
                    got2 = g.get("b")[0]
                    inv = g.get("world", "b")[0]
                    case = {"form": fname, "axis": ax, "angle": ang, "translation": tr}
                    if not _close(got1, want, FTOL):
                        t.violation(f"update({fname}) stores a different matrix", case, {"got": got1, "want": want})
                    elif not _close(got2, want @ want, FTOL):
                        t.violation(f"update({fname}) chain product wrong", case, {"got": got2, "want": want @ want})
                    elif not _close(inv @ got2, np.eye(4), FTOL):
                        t.violation(f"update({fname}) inverse traversal wrong", case, {"got": inv})
                    t.sample(case, limit=2)
    return t


def forms_tasks(tier):
    axes = [a for a in itertools.product([-1, 0, 1], repeat=3) if any(a)]
    if tier == "thorough":
        axes += [(1, 2, 3), (2, -1, 5), (-3, 1, 2)]
    base = [k * np.pi / 6 for k in range(-6, 7)] + [k * np.pi / 4 for k in (-3, -1, 1, 3)]
    eps = [1e-9, -1e-9, np.pi / 2 + 1e-9, np.pi - 1e-9, -np.pi + 1e-9]
    angles = sorted(set(base + eps))
    trs = [None, (1, 2, 3), (0, 0, -5)]
    return [([ax], angles, trs) for ax in axes]


def replay(case):
    if "history" in case:
        sysm = System(frames=case.get("frames", FRAMES), mats=case.get("mats", ["M1", "M2"]))
        return sysm.check(case["start"], case["history"])
    t = _forms_worker(([tuple(case["axis"])], [case["angle"]], [None if case["translation"] is None else tuple(case["translation"])]))
    return [(k, d) for k, c, d in t.violations]


def main(run):
    tier = run.tier
    harness.seed_everything(run.seed)
    sysm = System()
    if tier == "quick":
        r0 = explorer.bfs(sysm, run, max_depth=3)
        d_depth, d_dev = 4, 1
    else:
        r0 = explorer.bfs(sysm, run, max_depth=4)
        d_depth, d_dev = 5, 2
    # deviation-bounded deeper search (deviation = a query / export / copy action)
    run.log(f"deviation-bounded search depth {d_depth}, <= {d_dev} query deviations")
    r1 = explorer.bfs(System(), run, max_depth=d_depth, max_dev=d_dev)
    # updates between two nearly equal placements far from the origin must take effect
    run.log("search over nearly equal matrices (L, Le)")
    r2 = explorer.bfs(System(frames=["world", "a", "b"], mats=("L", "Le")), run, max_depth=3 if tier == "quick" else 4, max_dev=1)
    tallies = harness.pmap(_forms_worker, forms_tasks(tier))
    run.merge(tallies)
    hist_sample = [
        {"start": "empty", "history": [["update", "a", "world", "M1"], ["update", "b", "a", "M2"], ["get", "world", "b"], ["update", "b", "world", "M1"], ["get", "a", "b"]]},
    ]
    cov = {
        "states": r0["states"] + r1["states"] + r2["states"],
        "transitions": r0["transitions"] + r1["transitions"] + r2["transitions"],
        "traces_validated_against_impl": r0["transitions"] + r1["transitions"] + r2["transitions"],
        "samples": hist_sample + run.tally.samples[:2],
        "full_alphabet_search": r0,
        "deviation_bounded_search": dict(r1, max_deviations=d_dev),
        "near_equal_matrix_search": dict(r2, max_deviations=1),
        "forms_evaluations": run.tally.evaluations,
        "exhaustive": not (r0["capped"] or r1["capped"]),
        "rule": "state = history of update/setitem/remove/base/rmgeom/get/nodes/flat/edgelist/copy over frames world,a,b,c and matrices M1,M2; merged on canonical (impl forest, caches, model forest); every transition target is checked on two fresh replays (forward / reversed query order) against a dictionary reference forest; every history is replayed on the real SceneGraph",
    }
    return run.finish(
        cov,
        assumptions=[
            "edge matrices are exact in binary64 (90-degree rotations, integer translations); tolerance 1e-9",
            "updates that would create a cycle are outside the forest domain and not enabled",
            "remove_node makes the children of the removed node roots of their own trees",
            "to_flattened may raise when some frame is not connected to the base frame",
        ],
    )
