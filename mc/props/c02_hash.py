"""
C02 - the content hash of tracked arrays always reflects their current bytes.

Part A (E1, to a fixpoint): explicit-state search over programs of numpy operations on a
tracked array and handles derived from it.  State abstraction: per live handle its kind,
parent, and for tracked handles (dirty flag, memo present, memo valid).  Byte values are
not part of the canonical form: `TrackedArray.__hash__` depends on them only through
`tobytes()` when dirty and through the memo otherwise, so two states that agree on the
flags have the same futures with respect to "hash == hash of current bytes".
Invariant in every state, for every live tracked handle x, each on its own fresh replay:
    x.__hash__() == hash_fast(x.tobytes())

Part B (E2): containers (DataStore, Trimesh, Path2D, ColorVisuals, Scene, PointCloud):
all short programs [pre-hash?] -> [handle: direct | tracked view] -> [hash between?] ->
write route -> container hash must equal the hash of a container freshly built from the
same bytes; equal arrays hash equal; neutral operations leave the hash unchanged.
"""

import itertools

import numpy as np

from mc.core import explorer, harness

LEVEL = "model_checking"


# ---------------------------------------------------------------------------
# base arrays, as the library stores them
# ---------------------------------------------------------------------------


def base_data(name):
    if name == "f64_2x3":  # vertices
        return np.array([[7.5, 6.0, 5.25], [4.0, 3.5, 2.0]], dtype=np.float64)
    if name == "i64_2x3":  # faces
        return np.array([[9, 7, 6], [5, 3, 2]], dtype=np.int64)
    if name == "f64_4x4":  # transform
        return (np.arange(16, 0, -1, dtype=np.float64) + 0.5).reshape(4, 4)
    if name == "u8_2x4":  # colours
        return np.array([[250, 200, 150, 100], [90, 60, 30, 10]], dtype=np.uint8)
    if name == "bool_2x2x2":  # voxels
        return np.array([1, 1, 0, 1, 0, 0, 1, 0], dtype=bool).reshape(2, 2, 2)
    raise KeyError(name)


# ---------------------------------------------------------------------------
# handle creation
# ---------------------------------------------------------------------------

VIEW_KINDS = [
    # name, function, produces alias of the parent's memory?
    ("idx0", lambda a: a[0]),
    ("slice", lambda a: a[:1]),
    ("col", lambda a: a[:, 0]),
    ("ellipsis", lambda a: a[...]),
    ("T", lambda a: a.T),
    ("reshape", lambda a: a.reshape(-1)),
    ("ravel", lambda a: a.ravel()),
    ("view", lambda a: a.view()),
    ("ndview", lambda a: a.view(np.ndarray)),
    ("asarray", lambda a: np.asarray(a)),
    ("flat", lambda a: a.flat),
    ("memview", lambda a: memoryview(a)),
    ("copy", lambda a: a.copy()),
    ("fancy", lambda a: a[[0, 0]]),
    ("plus0", lambda a: a + 0),
]
VIEW_FUNCS = dict(VIEW_KINDS)
UNTRACKED = {"ndview", "asarray", "flat", "memview"}
QUICK_KINDS = ["idx0", "T", "reshape", "view", "ndview", "flat", "copy"]


def is_tracked(x):
    from trimesh.caching import TrackedArray

    return isinstance(x, TrackedArray)


_PRIVATE_PROPS = {}


def _private_properties(cls):
    if cls not in _PRIVATE_PROPS:
        _PRIVATE_PROPS[cls] = [k for k in dir(cls) if k.startswith("_") and not k.startswith("__") and isinstance(getattr(cls, k, None), property)]
    return _PRIVATE_PROPS[cls]


def _hidden_state(x, hash_fast):
    """
    Name-agnostic abstraction of the private bookkeeping of a tracked array and of every tracked array it is a
    view of: each instance attribute is reduced to a flag / None / 'valid' or 'stale' (an integer that is or is
    not the hash of the current bytes) / a type name.  Renaming or re-laying-out the private fields changes the
    labels, not the partition into states.
    """
    out = []
    cur, depth = x, 0
    while is_tracked(cur) and depth < 8:
        try:
            want = hash_fast(cur.tobytes(order="C"))
        except Exception:
            want = None
        items = []
        for k, v in sorted(getattr(cur, "__dict__", {}).items()):
            if isinstance(v, (bool, np.bool_)):
                a = bool(v)
            elif v is None:
                a = None
            elif isinstance(v, (int, np.integer)):
                a = "valid" if int(v) == want else "stale"
            else:
                a = type(v).__name__
            items.append((k, a))
        # class-level properties that summarise the chain (e.g. a dirty flag derived from the bases)
        for k in _private_properties(type(cur)):
            if True:
                try:
                    v = getattr(cur, k)
                except Exception:
                    continue
                if isinstance(v, (bool, np.bool_)):
                    items.append((k, bool(v)))
        out.append(tuple(items))
        cur = cur.base
        depth += 1
    return tuple(out)


# ---------------------------------------------------------------------------
# write routes: f(x, k) changes the bytes of x (k = step counter, makes values fresh)
# ---------------------------------------------------------------------------


def _val(x, k):
    """A value of x's dtype that differs from what is stored (values grow with k)."""
    dt = x.dtype if hasattr(x, "dtype") else np.dtype(x.format)
    if dt == bool:
        return None
    if dt.kind == "f":
        return 1000.0 + k + 0.5
    if dt == np.uint8:
        return (101 + 7 * k) % 251
    return 1000 + k


def _first(x):
    return (0,) * x.ndim


def _w_setitem_item(x, k):
    x[_first(x)] = (not x[_first(x)]) if x.dtype == bool else _val(x, k)


def _w_setitem_slice(x, k):
    x[...] = (~x) if x.dtype == bool else (np.asarray(x) * 0 + _val(x, k))


def _w_setitem_mask(x, k):
    m = np.ones(x.shape, dtype=bool)
    x[m] = (~np.asarray(x)[m]) if x.dtype == bool else _val(x, k)


def _w_setitem_fancy(x, k):
    x[[0]] = (~np.asarray(x)[[0]]) if x.dtype == bool else _val(x, k)


def _iop(name, operand):
    def f(x, k):
        op = operand(x) if callable(operand) else operand
        getattr(x, name)(op)

    f.__name__ = name
    return f


def _w_fill(x, k):
    x.fill(not x.flat[0] if x.dtype == bool else _val(x, k))


def _w_sort(x, k):
    # data is stored descending along every axis so a sort changes bytes;
    # after a first sort use a reversed order via negative fill first element
    before = np.asarray(x).tobytes()
    x.sort(axis=-1)
    if np.asarray(x).tobytes() == before:
        x.sort(axis=0)


def _w_partition(x, k):
    x.partition(0, axis=-1)


def _w_put(x, k):
    x.put([0], [not x.flat[0] if x.dtype == bool else _val(x, k)])


def _w_byteswap(x, k):
    x.byteswap(True)


def _w_setfield(x, k):
    x.setfield(_val(x, k), x.dtype)


def _w_ufunc_out(x, k):
    if x.dtype == bool:
        np.logical_not(x, out=x)
    else:
        np.add(x, 1, out=x)


def _w_ufunc_unary_out(x, k):
    if x.dtype == bool:
        np.logical_not(x, out=x)
    elif x.dtype == np.uint8:
        np.invert(x, out=x)
    else:
        np.negative(x, out=x)


def _w_clip_out(x, k):
    np.clip(x, 1, 2, out=x)


def _w_method_out(x, k):
    # ndarray method with out=: a.clip(out=a)
    x.clip(3, 4, out=x)


def _w_dot_out(x, k):
    np.dot(np.asarray(x), np.eye(x.shape[1]) * 2, out=x)


def _w_cumsum_out(x, k):
    np.cumsum(np.asarray(x), axis=0, out=x)


def _w_copyto(x, k):
    np.copyto(x, (~np.asarray(x)) if x.dtype == bool else _val(x, k))


def _w_np_put(x, k):
    np.put(x, [0], [not x.flat[0] if x.dtype == bool else _val(x, k)])


def _w_place(x, k):
    np.place(x, np.ones(x.shape, bool), [not x.flat[0] if x.dtype == bool else _val(x, k)])


def _w_putmask(x, k):
    np.putmask(x, np.ones(x.shape, bool), (~np.asarray(x)) if x.dtype == bool else _val(x, k))


def _w_fill_diagonal(x, k):
    np.fill_diagonal(x, not x[_first(x)] if x.dtype == bool else _val(x, k))


def _w_ufunc_at(x, k):
    if x.dtype == bool:
        np.logical_xor.at(x, (0,), True)
    else:
        np.add.at(x, (0,), 1)


def _w_flat_assign(x, k):
    x.flat[0] = not x.flat[0] if x.dtype == bool else _val(x, k)


def _w_real_assign(x, k):
    x.real[...] = np.asarray(x) + 1


def _w_memview_assign(x, k):
    memoryview(x).cast("B")[0] ^= 0xFF


def _w_data_assign(x, k):
    x.data.cast("B")[0] ^= 0xFF


def _w_nan_to_num(x, k):
    x[_first(x)] = np.nan  # intercepted write first ...
    hash(x)  # ... hash read, then the in-place function
    np.nan_to_num(x, copy=False)


def _w_shuffle(x, k):
    before = np.asarray(x).tobytes()
    for _ in range(8):
        np.random.shuffle(x)
        if np.asarray(x).tobytes() != before:
            break


def _w_setflags_write(x, k):
    # not a byte change: a rejected write on a read-only array, then restored
    x.setflags(write=False)
    try:
        x[_first(x)] = _val(x, k) if x.dtype != bool else True
    except ValueError:
        pass
    x.setflags(write=True)


FLOATISH = lambda x: x.dtype.kind == "f"  # noqa
INTISH = lambda x: x.dtype.kind in "iu"  # noqa
NOTBOOL = lambda x: x.dtype != bool  # noqa
ANY = lambda x: True  # noqa

# name -> (function, applicable(x), intercepted by TrackedArray per the anchors)
ROUTES = {
    "setitem_item": (_w_setitem_item, ANY, True),
    "setitem_slice": (_w_setitem_slice, ANY, True),
    "setitem_mask": (_w_setitem_mask, ANY, True),
    "setitem_fancy": (_w_setitem_fancy, ANY, True),
    "iadd": (_iop("__iadd__", 1), NOTBOOL, True),
    "isub": (_iop("__isub__", 1), NOTBOOL, True),
    "imul": (_iop("__imul__", 3), NOTBOOL, True),
    "itruediv": (_iop("__itruediv__", 4.0), FLOATISH, True),
    "ifloordiv": (_iop("__ifloordiv__", 2), NOTBOOL, True),
    "imod": (_iop("__imod__", 2), NOTBOOL, True),
    "ipow": (_iop("__ipow__", 2), NOTBOOL, True),
    "ilshift": (_iop("__ilshift__", 1), INTISH, True),
    "irshift": (_iop("__irshift__", 1), INTISH, True),
    "iand": (_iop("__iand__", lambda x: False if x.dtype == bool else 6), lambda x: x.dtype.kind in "iub", True),
    "ior": (_iop("__ior__", lambda x: True if x.dtype == bool else 64), lambda x: x.dtype.kind in "iub", True),
    "ixor": (_iop("__ixor__", lambda x: True if x.dtype == bool else 1), lambda x: x.dtype.kind in "iub", True),
    "imatmul": (_iop("__imatmul__", lambda x: np.eye(x.shape[-1]) * 2), lambda x: x.dtype.kind == "f" and x.ndim == 2 and x.shape[0] == x.shape[1], True),
    "fill": (_w_fill, ANY, True),
    "sort": (_w_sort, ANY, True),
    "partition": (_w_partition, ANY, True),
    "put": (_w_put, ANY, True),
    "byteswap": (_w_byteswap, lambda x: x.dtype.itemsize > 1, True),
    "np.put": (_w_np_put, ANY, True),
    "setfield": (_w_setfield, NOTBOOL, False),
    "ufunc_out": (_w_ufunc_out, ANY, False),
    "ufunc_unary_out": (_w_ufunc_unary_out, ANY, False),
    "np.clip_out": (_w_clip_out, NOTBOOL, False),
    "method_out": (_w_method_out, NOTBOOL, False),
    "np.dot_out": (_w_dot_out, lambda x: x.dtype.kind == "f" and x.ndim == 2 and x.flags.c_contiguous, False),
    "np.cumsum_out": (_w_cumsum_out, lambda x: x.dtype.kind in "fi" and x.dtype.itemsize == 8, False),
    "np.copyto": (_w_copyto, ANY, False),
    "np.place": (_w_place, ANY, False),
    "np.putmask": (_w_putmask, ANY, False),
    "np.fill_diagonal": (_w_fill_diagonal, lambda x: x.ndim >= 2, False),
    "ufunc.at": (_w_ufunc_at, ANY, False),
    "flat_assign": (_w_flat_assign, ANY, False),
    "real_assign": (_w_real_assign, FLOATISH, False),
    "memoryview_assign": (_w_memview_assign, lambda x: x.flags.c_contiguous, False),
    "data_assign": (_w_data_assign, lambda x: x.flags.c_contiguous, False),
    "np.nan_to_num_inplace": (_w_nan_to_num, FLOATISH, False),
    "np.random.shuffle": (_w_shuffle, lambda x: x.ndim >= 1 and x.shape[0] > 1, False),
}
QUICK_ROUTES = [
    "setitem_item", "setitem_slice", "iadd", "imul", "ixor", "fill", "sort", "put",
    "ufunc_out", "np.copyto", "ufunc.at", "flat_assign", "np.fill_diagonal", "memoryview_assign",
]

NEUTRAL = {
    "sum": lambda x: x.sum(),
    "compare": lambda x: x == x,
    "tolist": lambda x: x.tolist(),
    "astype": lambda x: x.astype(np.float32),
    "copy": lambda x: x.copy(),
    "readonly_rejected_write": lambda x: _w_setflags_write(x, 0),
    "mutable_toggle": lambda x: (x.setflags(write=False), x.setflags(write=True)),
    "binary_op": lambda x: x + x,
    "len_shape": lambda x: (len(x), x.shape, x.dtype),
}


# ---------------------------------------------------------------------------
# the system
# ---------------------------------------------------------------------------


class Ctx:
    pass


class System:
    def __init__(self, dtypes, kinds, routes, max_derived, max_view_depth=2):
        self.dtypes = dtypes
        self.kinds = kinds
        self.routes = routes
        self.max_derived = max_derived
        self.max_view_depth = max_view_depth

    def starts(self):
        return list(self.dtypes)

    def build(self, start, hist):
        from trimesh.caching import tracked_array

        ctx = Ctx()
        ctx.start = start
        ctx.handles = [tracked_array(base_data(start))]
        ctx.meta = [("base", None, 0)]  # (kind, parent index, depth)
        ctx.k = 0
        ctx.last_exc = None
        ctx.hist = hist
        for a in hist:
            self.apply(ctx, a)
        return ctx

    def actions(self, ctx):
        acts = []
        n = len(ctx.handles)
        for i in range(n):
            x = ctx.handles[i]
            kind = ctx.meta[i][0]
            arr = isinstance(x, np.ndarray)
            if is_tracked(x):
                acts.append(["hash", i])
            if arr:
                for r in self.routes:
                    f, ok, _ = ROUTES[r]
                    try:
                        if ok(x):
                            acts.append(["write", r, i])
                    except Exception:
                        pass
                for nm in NEUTRAL:
                    acts.append(["neutral", nm, i])
                if is_tracked(x):
                    acts.append(["flag", "freeze" if x.flags.writeable else "unfreeze", i])
            elif kind == "flat":
                acts.append(["write", "flatiter_setitem", i])
            elif kind == "memview":
                acts.append(["write", "memoryview_setitem", i])
            if arr and n - 1 < self.max_derived and ctx.meta[i][2] < self.max_view_depth:
                for kd in self.kinds:
                    if kd == "col" and x.ndim < 2:
                        continue
                    acts.append(["view", kd, i])
        return acts

    def cost(self, a):
        return 0

    def apply(self, ctx, a):
        ctx.k += 1
        ctx.last_exc = None
        try:
            if a[0] == "view":
                p = ctx.handles[a[2]]
                ctx.handles.append(VIEW_FUNCS[a[1]](p))
                ctx.meta.append((a[1], a[2], ctx.meta[a[2]][2] + 1))
            elif a[0] == "hash":
                ctx.handles[a[1]].__hash__()
            elif a[0] == "neutral":
                NEUTRAL[a[1]](ctx.handles[a[2]])
            elif a[0] == "flag":
                # the library's own way of freezing an array: the `mutable` property
                ctx.handles[a[2]].mutable = a[1] == "unfreeze"
            elif a[0] == "write":
                x = ctx.handles[a[2]]
                if a[1] == "flatiter_setitem":
                    x[0] = (not x[0]) if x.base.dtype == bool else _val(x.base, ctx.k)
                elif a[1] == "memoryview_setitem":
                    x.cast("B")[0] ^= 0xFF
                else:
                    np.random.seed(ctx.k)
                    ROUTES[a[1]][0](x, ctx.k)
        except Exception as e:  # a raising operation is just another step
            ctx.last_exc = type(e).__name__
            if a[0] == "view":
                # keep handle lists aligned: a failed creation adds nothing
                pass

    def blind(self):
        """True when the private bookkeeping of a tracked array cannot be observed (a refactor moved it out of the
        instance): reading the hash must change the abstract state (a memo appears).  A blind abstraction would merge
        states with different futures, so the search then falls back to histories as states (no merging)."""
        if not hasattr(self, "_blind"):
            st = self.starts()[0]
            self._blind = False
            a = self.canon(self.build(st, []))
            b = self.canon(self.build(st, [["hash", 0]]))
            self._blind = a == b
        return self._blind

    def canon(self, ctx):
        from trimesh.caching import hash_fast

        if getattr(self, "_blind", False):
            return ("history", ctx.start, repr(ctx.hist))
        out = [ctx.start]
        for x, (kind, parent, depth) in zip(ctx.handles, ctx.meta):
            if is_tracked(x):
                out.append((kind, parent, "T", _hidden_state(x, hash_fast), bool(x.flags.writeable),
                            bool(x.flags.c_contiguous), isinstance(x.base, type(x))))
            elif isinstance(x, np.ndarray):
                out.append((kind, parent, "U", bool(x.flags.writeable)))
            else:
                out.append((kind, parent, "O"))
        return tuple(out)

    def check(self, start, hist):
        """For every live tracked handle, on its own fresh replay: hash == hash of bytes."""
        from trimesh.caching import hash_fast

        ctx0 = self.build(start, hist)
        n = len(ctx0.handles)
        for i in range(n):
            if not is_tracked(ctx0.handles[i]):
                continue
            ctx = ctx0 if i == 0 else self.build(start, hist)
            x = ctx.handles[i]
            got = x.__hash__()
            want = hash_fast(x.tobytes(order="C"))
            # and equal to the hash of a *fresh* tracked array with the same bytes
            from trimesh.caching import tracked_array

            fresh = tracked_array(np.array(x, copy=True)).__hash__()
            if got != want or want != fresh:
                return [(self.key(ctx, hist, i), {"stale_handle": i, "meta": ctx.meta, "got": got, "want": want, "fresh": fresh})]
        return []

    def key(self, ctx, hist, stale):
        last = hist[-1]
        meta = ctx.meta

        def rel(h, s):
            if h == s:
                return "itself"
            # is s an ancestor of h?
            p = meta[h][1]
            while p is not None:
                if p == s:
                    return "its base"
                p = meta[p][1]
            p = meta[s][1]
            while p is not None:
                if p == h:
                    return "a view of it"
                p = meta[p][1]
            return "another view of the same base"

        if last[0] == "write":
            h = last[2]
            hk = meta[h][0]
            if not is_tracked(ctx.handles[h]):
                # find the untracked alias this handle descends from
                p = h
                while p is not None and meta[p][0] not in UNTRACKED:
                    p = meta[p][1]
                root = meta[p][0] if p is not None else hk
                return f"write through untracked {root} alias of the data (any route) -> stale hash"
            hclass = "base" if hk == "base" else "tracked view"
            r = rel(h, stale)
            intercepted = ROUTES.get(last[1], (None, None, False))[2]
            if intercepted and r != "itself":
                return f"intercepted write on {hclass} -> stale hash on {r}"
            if not intercepted:
                return f"{last[1]} (not intercepted) on tracked array -> stale hash"
            return f"{last[1]} on {hclass} -> stale hash on itself"
        if last[0] == "view":
            return f"creating {last[1]} -> stale hash"
        return f"{last[0]}:{last[1]} -> hash differs from hash of bytes"


# ---------------------------------------------------------------------------
# Part B: containers
# ---------------------------------------------------------------------------


def _mk_container(name, arrays=None):
    """Return (container, {member name: getter}) built from explicit arrays."""
    import trimesh

    V = np.array([[0, 0, 0], [1, 0, 0], [0, 1, 0], [0, 0, 1]], dtype=np.float64)
    F = np.array([[0, 2, 1], [0, 1, 3], [1, 2, 3], [0, 3, 2]], dtype=np.int64)
    C = np.array([[250, 200, 150, 255], [90, 60, 30, 255], [1, 2, 3, 255], [9, 8, 7, 255]], dtype=np.uint8)
    arrays = arrays or {}
    if name.endswith("/1row"):
        # every member array has exactly one row (single face, single point, single colour)
        name = name[: -len("/1row")]
        if name in ("DataStore", "Trimesh", "Scene"):
            V, F, C = V[:3], F[:1], C[:1]
        elif name == "Trimesh+colors":
            V, F, C = V[:3], F[:1], C[:1]
        elif name == "ColorVisuals":
            V, F, C = V[:3], F[:1], C[:3]
        else:
            V, C = V[:1], C[:1]
    V = arrays.get("vertices", V).copy()
    F = arrays.get("faces", F).copy()
    C = arrays.get("colors", C).copy()
    if name == "DataStore":
        from trimesh.caching import DataStore

        d = DataStore()
        d["vertices"] = V
        d["faces"] = F
        return d, {"vertices": lambda o: o["vertices"], "faces": lambda o: o["faces"]}
    if name == "Trimesh":
        m = trimesh.Trimesh(vertices=V, faces=F, process=False)
        return m, {"vertices": lambda o: o.vertices, "faces": lambda o: o.faces}
    if name == "Trimesh+colors":
        m = trimesh.Trimesh(vertices=V, faces=F, face_colors=C, process=False)
        # the mesh hash is the hash of its vertex and face arrays: colours are hashed by the visual
        return m, {"vertices": lambda o: o.vertices, "faces": lambda o: o.faces}
    if name == "ColorVisuals":
        m = trimesh.Trimesh(vertices=V, faces=F, vertex_colors=C, process=False)
        return m.visual, {"colors": lambda o: o.vertex_colors}
    if name == "PointCloud":
        p = trimesh.PointCloud(V, colors=C)
        return p, {"vertices": lambda o: o.vertices}
    if name == "Path3D":
        from trimesh.path import Path3D
        from trimesh.path.entities import Line

        p = Path3D(entities=[Line([0, 1, 2, 3, 0])], vertices=V, process=False)
        return p, {"vertices": lambda o: o.vertices}
    if name == "Path2D":
        from trimesh.path import Path2D
        from trimesh.path.entities import Line

        p = Path2D(entities=[Line([0, 1, 2, 3, 0])], vertices=V[:, :2].copy() + [[0, 0], [0, 0], [1, 0], [0, 0]], process=False)
        return p, {"vertices": lambda o: o.vertices}
    if name == "Scene":
        m = trimesh.Trimesh(vertices=V, faces=F, process=False)
        s = trimesh.Scene()
        s.add_geometry(m, geom_name="m", node_name="n")
        return s, {"vertices": lambda o: o.geometry["m"].vertices, "faces": lambda o: o.geometry["m"].faces}
    raise KeyError(name)


CONTAINERS = ["DataStore", "Trimesh", "Trimesh+colors", "ColorVisuals", "PointCloud", "Path3D", "Path2D", "Scene",
              "DataStore/1row", "Trimesh/1row", "Trimesh+colors/1row", "PointCloud/1row", "Scene/1row"]
CONT_VIEWS = [None, "idx0", "T", "reshape", "view", "col"]


def _chash(o):
    return o.__hash__()


def _container_case(case):
    """Run one container program; returns (violation key or None, detail, nontrivial?)."""
    name, member, prehash, viewkind, midhash, route = case
    cont, members = _mk_container(name)
    get = members[member]
    h0 = _chash(cont) if prehash else None
    arr = get(cont)
    handle = arr if viewkind is None else VIEW_FUNCS[viewkind](arr)
    if midhash:
        _chash(cont)
    before = np.array(get(cont), copy=True)
    f, ok, intercepted = ROUTES[route]
    try:
        if not ok(handle):
            return None, None, False
        np.random.seed(1)
        f(handle, 1)
    except Exception as e:
        exc = type(e).__name__
    else:
        exc = None
    after = np.array(get(cont), copy=True)
    changed = before.tobytes() != after.tobytes()
    got = _chash(cont)
    fresh, _ = _mk_container(name, {("colors" if member == "colors" else member): after} if name != "Path2D" else None)
    if name == "Path2D":
        # rebuild with the same 2D vertices
        from trimesh.path import Path2D
        from trimesh.path.entities import Line

        fresh = Path2D(entities=[Line([0, 1, 2, 3, 0])], vertices=after.copy(), process=False)
    want = _chash(fresh)
    detail = {"changed_bytes": changed, "exception": exc, "got": got, "want": want}
    if changed and prehash and got == h0 and got == want:
        # the fresh container agrees, but the hash did not move although the bytes did:
        # the member does not take part in the container hash at all
        return f"container {name}.{member}: hash unchanged although the bytes changed", detail, changed
    if got != want:
        if viewkind is None:
            via = "direct"
        else:
            via = "tracked view" if is_tracked(handle) else "untracked view"
        if intercepted:
            key = f"container {name}.{member}: intercepted write {route if via == 'direct' else ''} via {via}{' after a hash read' if midhash else ''} -> container hash stale"
        else:
            # same root cause as on the bare array: same key
            key = f"{route} (not intercepted) on tracked array -> stale hash"
        return key, detail, changed
    return None, detail, changed


LOCK_VARIANTS = ["lock-hash-unlock-write-lock", "lock-hash-unlock-write", "view-lock-hash-write", "lock-hash-write"]


def _lock_case(case):
    """Programs over the `mutable` switch of a container: the hash read while locked must not outlive a later write."""
    _, name, member, viewkind, variant, route = case
    cont, members = _mk_container(name)
    if not hasattr(type(cont), "mutable"):
        return None, None, False
    get = members[member]
    f, ok, intercepted = ROUTES[route]
    before = np.array(get(cont), copy=True)
    held = None
    if variant == "view-lock-hash-write":
        arr = get(cont)
        held = arr if viewkind is None else VIEW_FUNCS[viewkind](arr)
    exc = None
    try:
        cont.mutable = False
        _chash(cont)
        if variant.startswith("lock-hash-unlock"):
            cont.mutable = True
        if held is None:
            arr = get(cont)
            held = arr if viewkind is None else VIEW_FUNCS[viewkind](arr)
        if not ok(held):
            return None, None, False
        np.random.seed(1)
        try:
            f(held, 1)
        except Exception as e:  # a locked array refuses the write: fine, the bytes then did not change
            exc = type(e).__name__
        if variant == "lock-hash-unlock-write-lock":
            cont.mutable = False
    except Exception as e:
        return f"container {name}: the mutable switch raises {type(e).__name__}", {"exception": repr(e)[:200]}, False
    after = np.array(get(cont), copy=True)
    changed = before.tobytes() != after.tobytes()
    got = _chash(cont)
    if name == "Path2D":
        from trimesh.path import Path2D
        from trimesh.path.entities import Line

        fresh = Path2D(entities=[Line([0, 1, 2, 3, 0])], vertices=after.copy(), process=False)
    else:
        fresh, _ = _mk_container(name, {("colors" if member == "colors" else member): after})
    want = _chash(fresh)
    detail = {"changed_bytes": changed, "exception": exc, "got": got, "want": want, "variant": variant}
    if got != want:
        if intercepted or not is_tracked(held):
            via = "direct" if viewkind is None else ("tracked view" if is_tracked(held) else "untracked view")
            if not is_tracked(held):
                # the untracked-alias finding of the bare array: same key
                return None, detail, changed
            return f"container {name}.{member}: hash read while locked survives a later write ({variant}, {via})", detail, changed
        return f"{route} (not intercepted) on tracked array -> stale hash", detail, changed
    return None, detail, changed


def _container_worker(cases):
    t = harness.Tally()
    for case in cases:
        if case[0] == "lock":
            key, detail, nontrivial = _lock_case(case)
        else:
            key, detail, nontrivial = _container_case(case)
        if detail is None:
            continue
        t.evaluations += 1
        if nontrivial:
            t.nontrivial_count += 1
        t.stats["container_cases_bytes_changed" if nontrivial else "container_cases_bytes_unchanged"] += 1
        if key:
            t.violation(key, {"container_case": list(case)}, detail)
        elif nontrivial:
            t.sample({"container_case": list(case), "hash_follows_bytes": True}, limit=1)
    return t


def _container_cases(tier):
    routes = QUICK_ROUTES if tier == "quick" else list(ROUTES)
    out = []
    for name in CONTAINERS:
        _, members = _mk_container(name)
        for member in members:
            for prehash, viewkind, midhash in itertools.product([False, True], CONT_VIEWS, [False, True]):
                for r in routes:
                    out.append((name, member, prehash, viewkind, midhash, r))
            # the `mutable` switch: lock / hash / (unlock) / write / (lock) / hash
            for variant in LOCK_VARIANTS:
                for viewkind in CONT_VIEWS:
                    for r in routes:
                        out.append(("lock", name, member, viewkind, variant, r))
    return out


def _twin_cases(t):
    """Containers holding two members with identical content (distinct objects): the same edit applied to both
    changes the bytes of the container and must change its hash (a combination of member hashes in which equal
    members cancel would not notice)."""
    import trimesh

    V = np.array([[0, 0, 0], [1, 0, 0], [0, 1, 0], [0, 0, 1]], dtype=np.float64)
    F = np.array([[0, 2, 1], [0, 1, 3], [1, 2, 3], [0, 3, 2]], dtype=np.int64)

    def scene(n):
        s = trimesh.Scene()
        for i in range(n):
            s.add_geometry(trimesh.Trimesh(V.copy(), F.copy(), process=False), node_name=f"n{i}", geom_name=f"g{i}")
        return s

    for n in (2, 3, 4):
        for what in ("vertices", "faces"):
            case = {"twins": ["Scene", n, what]}
            t.evaluations += 1
            t.nontrivial_count += 1
            s = scene(n)
            h0 = _chash(s)
            for g in s.geometry.values():
                if what == "vertices":
                    g.vertices[0, 0] += 1.0
                else:
                    g.faces[0] = g.faces[0][[1, 2, 0]]
            h1 = _chash(s)
            if h1 == h0:
                t.violation("container Scene: the same edit applied to every one of several equal geometries leaves the scene hash unchanged", case, {"before": h0, "after": h1})
                continue
            # and an edit of a single member as well
            s = scene(n)
            h0 = _chash(s)
            list(s.geometry.values())[-1].vertices[0, 0] += 1.0
            if _chash(s) == h0:
                t.violation("container Scene: an edit of one of several equal geometries leaves the scene hash unchanged", case, {})


def _equal_hash_cases():
    """Two independently built containers with equal arrays hash equal; neutral ops keep the hash."""
    t = harness.Tally()
    _twin_cases(t)
    for name in CONTAINERS:
        a, members = _mk_container(name)
        b, _ = _mk_container(name)
        t.evaluations += 1
        if _chash(a) != _chash(b):
            t.violation(f"container {name}: equal arrays hash differently", {"equal_hash": name}, {"a": _chash(a), "b": _chash(b)})
        for member, get in members.items():
            for nm, f in NEUTRAL.items():
                h0 = _chash(a)
                try:
                    f(get(a))
                except Exception:
                    pass
                t.evaluations += 1
                t.nontrivial_count += 1
                if _chash(a) != h0:
                    t.violation(f"container {name}.{member}: neutral {nm} changed the hash", {"neutral": [name, member, nm]}, {})
    return t


# ---------------------------------------------------------------------------


def _system_for(tier):
    if tier == "quick":
        return System(["f64_2x3", "i64_2x3", "bool_2x2x2"], QUICK_KINDS, QUICK_ROUTES, max_derived=2, max_view_depth=2)
    return System(["f64_2x3", "i64_2x3", "f64_4x4", "u8_2x4", "bool_2x2x2"], [k for k, _ in VIEW_KINDS], list(ROUTES), max_derived=2, max_view_depth=2)


def replay(case):
    if "history" in case:
        s = System([case["start"]], [k for k, _ in VIEW_KINDS], list(ROUTES), 3, 3)
        return s.check(case["start"], case["history"])
    if "container_case" in case:
        c = case["container_case"]
        key, detail, _ = _lock_case(tuple(c)) if c[0] == "lock" else _container_case(tuple(c))
        return [(key, detail)] if key else []
    t = _equal_hash_cases()
    return [(k, d) for k, c, d in t.violations]


def main(run):
    harness.seed_everything(run.seed)
    tier = run.tier
    sysm = _system_for(tier)
    blind = sysm.blind()
    if blind:
        run.log("private bookkeeping of TrackedArray not observable: histories as states, depth 3")
    r = explorer.bfs(sysm, run, max_depth=3 if blind else 40)
    deeper = None
    if tier != "quick":
        # three derived handles, reduced alphabets
        run.log("second search: 3 derived handles, reduced alphabet")
        s3 = System(["f64_2x3", "bool_2x2x2"], ["idx0", "view", "T", "ndview", "copy"], QUICK_ROUTES, max_derived=3, max_view_depth=2)
        s3._blind = blind
        # three derived handles x freeze states do not close in reasonable time: capped (reported, not "exhaustive")
        deeper = explorer.bfs(s3, run, max_depth=3 if blind else 40, state_cap=250000)
    cases = _container_cases(tier)
    chunks = [cases[i::64] for i in range(64)]
    run.merge(harness.pmap(_container_worker, chunks))
    run.tally.merge(_equal_hash_cases())
    cov = {
        "states": r["states"] + (deeper["states"] if deeper else 0),
        "transitions": r["transitions"] + (deeper["transitions"] if deeper else 0),
        "traces_validated_against_impl": r["transitions"] + (deeper["transitions"] if deeper else 0) + run.tally.evaluations,
        "frontier_closed": r["frontier_closed"] and (deeper is None or deeper["frontier_closed"]),
        "search": r,
        "search_3_handles": deeper,
        "container_programs": len(cases),
        "state_abstraction": "histories (private bookkeeping not observable), bounded depth 3" if blind else "generic: every instance attribute of the array and of the tracked arrays it views, reduced to flag / None / valid / stale",
        "exhaustive": bool(r["frontier_closed"]),
        "caps": (f"second search (3 derived handles): state cap reached at depth {deeper['depth_completed']} with {deeper['states']} states; complete below that depth" if deeper and deeper.get("capped") else "none"),
        "samples": [
            {"start": "f64_2x3", "history": [["view", "idx0", 0], ["hash", 0], ["write", "setitem_item", 1], ["hash", 0]]},
        ] + run.tally.samples[:3],
        "rule": "abstract state = per live handle (kind, parent, tracked?, dirty flag, memo present, memo valid, writeable); BFS to a fixpoint over view creation / write routes / neutral operations / hash reads; in every state every tracked handle is hashed on its own fresh replay and compared with hash_fast(tobytes) and with a fresh tracked array of the same bytes. Container part: all programs [pre-hash] x [direct | view kind] x [mid hash] x route for 8 containers.",
    }
    return run.finish(
        cov,
        assumptions=[
            "TrackedArray.__hash__ depends on the bytes only through tobytes() when dirty and through the memo otherwise (justifies abstracting byte values)",
            "exploration below a violating transition is pruned (one key per first divergence)",
            "write routes always change bytes (values grow with the step counter)",
        ],
    )
