"""
C17 - copies are faithful and share no mutable state with the original.

Engine E1 (two-object histories): for every geometry kind in several states (values
computed or not, colours / texture, non-default primitive parameters, nested scene) and
every copy route (.copy(), copy.copy, copy.deepcopy):
  (1) faithful: snapshot(copy) == snapshot(original);
  (2) no sharing: after every edit from the kind's edit alphabet applied to one side, the
      other side's snapshot (taken afresh, so it includes values first computed after the
      edit) equals its own pre-edit snapshot; sequences of two edits in the thorough tier;
  (3) structural scan: no mutable object (writeable array, dict, list, custom object)
      reachable from both objects.
"""

import copy as _copy
import itertools

import numpy as np

from mc.core import harness

LEVEL = "model_checking"

_TET_V = np.array([[0, 0, 0], [2, 0, 0], [0, 2, 0], [0, 0, 2]], dtype=np.float64)
_TET_F = np.array([[0, 2, 1], [0, 1, 3], [1, 2, 3], [0, 3, 2]], dtype=np.int64)
RZ = np.array([[0, -1, 0, 1], [1, 0, 0, 2], [0, 0, 1, 3], [0, 0, 0, 1.0]])


# ---------------------------------------------------------------------------
# objects
# ---------------------------------------------------------------------------


def build(kind):
    import trimesh
    from trimesh import primitives
    from trimesh.path import Path2D, Path3D
    from trimesh.path.entities import Arc, Line

    if kind in ("mesh", "mesh_read"):
        m = trimesh.Trimesh(_TET_V.copy(), _TET_F.copy(), process=False)
        m.visual.face_colors = np.array([[255, 0, 0, 255], [0, 255, 0, 255], [0, 0, 255, 255], [9, 9, 9, 255]], dtype=np.uint8)
        m.metadata["info"] = {"tags": ["a", "b"], "n": 1}
        m.density = 2.5
        m.center_mass = np.array([0.5, 0.25, 0.125])
        if kind == "mesh_read":
            for k in ("face_normals", "vertex_normals", "volume", "bounds", "edges_unique", "face_adjacency", "moment_inertia", "triangles", "is_watertight"):
                getattr(m, k)
        return m
    if kind == "mesh_vertex_colors":
        m = trimesh.Trimesh(_TET_V.copy(), _TET_F.copy(), process=False)
        m.visual.vertex_colors = np.array([[255, 0, 0, 255], [0, 255, 0, 255], [0, 0, 255, 255], [9, 9, 9, 255]], dtype=np.uint8)
        m.face_normals
        return m
    if kind == "mesh_read_then_edited":
        # values cached, then the arrays edited in place with no read in between: the copy must describe
        # the arrays as they are now
        m = build("mesh_read")
        m.vertices[:, 0] *= 3.0
        m.faces[0] = m.faces[0][::-1].copy()
        return m
    if kind == "mesh_vertex_colors_edited":
        m = build("mesh_vertex_colors")
        m.visual.face_colors
        m.visual.vertex_colors
        m.visual.vertex_colors[0, 0] = 7
        m.visual.vertex_colors[2] = [1, 2, 3, 255]
        return m
    if kind == "mesh_face_colors_edited":
        m = build("mesh")
        m.visual.face_colors
        m.visual.vertex_colors
        m.visual.face_colors[1] = [4, 5, 6, 255]
        return m
    if kind == "path2d_read_then_edited":
        p = build("path2d_read")
        p.vertices[:, 0] *= 2.0
        return p
    if kind == "scene_read_then_edited":
        s = build("scene_read")
        s.geometry["tet"].vertices[:, 1] += 5.0
        return s
    if kind == "mesh_plain_read_then_edited":
        # no visuals defined (copying visuals reads the mesh and would refresh its cache)
        m = trimesh.creation.box(extents=[1.0, 2.0, 3.0])
        m.bounds, m.area, m.centroid, m.edges_unique, m.volume
        m.vertices[:, 0] *= 3.0
        return m
    if kind == "mesh_default_colors_painted":
        # both default colour arrays were generated, then the user paints the array the API handed out
        m = trimesh.creation.box(extents=[1.0, 2.0, 3.0])
        m.visual.face_colors
        vc = m.visual.vertex_colors
        vc[:4] = [255, 0, 0, 255]
        return m
    if kind == "mesh_default_face_colors_painted":
        m = trimesh.creation.box(extents=[1.0, 2.0, 3.0])
        m.visual.vertex_colors
        fc = m.visual.face_colors
        fc[:3] = [0, 255, 0, 255]
        return m
    if kind == "mesh_texture":
        m = trimesh.Trimesh(_TET_V.copy(), _TET_F.copy(), process=False)
        m.visual = trimesh.visual.TextureVisuals(uv=np.array([[0, 0], [1, 0], [0, 1], [0.5, 0.5]], dtype=float))
        return m
    if kind == "box":
        return primitives.Box(extents=[1, 2, 3], transform=RZ.copy())
    if kind == "sphere":
        return primitives.Sphere(radius=1.5, center=[1, 2, 3], subdivisions=1)
    if kind == "cylinder":
        return primitives.Cylinder(radius=1.0, height=3.0, sections=7, transform=RZ.copy())
    if kind == "capsule":
        return primitives.Capsule(radius=0.5, height=2.0, sections=9, transform=RZ.copy())
    if kind == "extrusion":
        from shapely.geometry import Polygon

        return primitives.Extrusion(polygon=Polygon([(0, 0), (2, 0), (2, 1), (0, 1)]), height=1.5, transform=RZ.copy())
    if kind in ("path2d", "path2d_read"):
        v = np.array([[0, 0], [4, 0], [4, 3], [0, 3], [1, 1], [2, 2], [3, 1]], dtype=float)
        p = Path2D(entities=[Line([1, 0]), Line([1, 2, 3, 0]), Arc([4, 5, 6], closed=True)], vertices=v, process=False)
        p.metadata["info"] = {"k": [1, 2]}
        if kind == "path2d_read":
            p.paths, p.polygons_full, p.area, p.discrete
        return p
    if kind == "path3d":
        v = np.array([[0, 0, 0], [2, 0, 0], [2, 2, 1], [0, 2, 1]], dtype=float)
        p = Path3D(entities=[Line([0, 1, 2]), Line([0, 3, 2])], vertices=v, process=False)
        p.paths
        return p
    if kind == "pointcloud":
        return trimesh.PointCloud(_TET_V.copy(), colors=np.array([[255, 0, 0, 255], [0, 255, 0, 255], [0, 0, 255, 255], [9, 9, 9, 255]], dtype=np.uint8), metadata={"info": {"k": [1]}})
    if kind in ("scene", "scene_read"):
        s = trimesh.Scene()
        a = trimesh.Trimesh(_TET_V.copy(), _TET_F.copy(), process=False)
        b = trimesh.creation.box(extents=[1, 1, 2])
        s.add_geometry(a, node_name="a", geom_name="tet", transform=RZ.copy())
        s.add_geometry(b, node_name="b", geom_name="box", parent_node_name="a", transform=RZ.copy())
        s.graph.update(frame_to="a2", frame_from="world", matrix=np.eye(4), geometry="tet")
        s.metadata["info"] = {"k": [1, 2]}
        if kind == "scene_read":
            s.bounds, s.triangles, s.area, s.graph.to_flattened(), s.camera
        return s
    if kind == "scenegraph":
        from trimesh.scene.transforms import SceneGraph

        g = SceneGraph()
        g.update("a", "world", matrix=RZ.copy(), geometry="ga")
        g.update("b", "a", matrix=RZ.copy())
        g.get("b")
        return g
    if kind in ("voxel_dense", "voxel_rle"):
        from trimesh.voxel import VoxelGrid
        from trimesh.voxel import encoding as enc

        d = np.zeros((2, 3, 2), dtype=bool)
        d[0, 0, 0] = d[1, 2, 1] = d[1, 0, 1] = True
        e = d if kind == "voxel_dense" else enc.BinaryRunLengthEncoding.from_dense(d.reshape(-1)).reshape(d.shape)
        return VoxelGrid(e, transform=np.diag([0.5, 0.5, 0.5, 1.0]), metadata={"info": {"k": [1]}})
    raise KeyError(kind)


KINDS = ["mesh", "mesh_read", "mesh_read_then_edited", "mesh_plain_read_then_edited", "mesh_default_colors_painted", "mesh_default_face_colors_painted", "mesh_vertex_colors", "mesh_vertex_colors_edited", "mesh_face_colors_edited", "mesh_texture", "path2d_read_then_edited", "scene_read_then_edited", "box", "sphere", "cylinder", "capsule", "extrusion", "path2d", "path2d_read", "path3d", "pointcloud", "scene", "scene_read", "scenegraph", "voxel_dense", "voxel_rle"]
ROUTES = {"copy()": lambda o: o.copy(), "copy.copy": lambda o: _copy.copy(o), "copy.deepcopy": lambda o: _copy.deepcopy(o)}


def family(kind):
    if kind.startswith("mesh"):
        return "mesh"
    if kind in ("box", "sphere", "cylinder", "capsule", "extrusion"):
        return "primitive"
    if kind.startswith("path"):
        return "path"
    if kind.startswith("scene") and kind != "scenegraph":
        return "scene"
    if kind.startswith("voxel"):
        return "voxel"
    return kind


# ---------------------------------------------------------------------------
# snapshots: everything the object reports about itself
# ---------------------------------------------------------------------------


def _j(x):
    return harness.jsonable(x)


def snapshot(kind, o):
    fam = family(kind)
    s = {}
    if fam in ("mesh", "primitive"):
        s["vertices"] = np.array(o.vertices)
        s["faces"] = np.array(o.faces)
        s["face_normals"] = np.round(np.array(o.face_normals), 12)
        s["volume"] = float(o.volume)
        s["center_mass"] = np.array(o.center_mass)
        s["density"] = float(o.density)
        s["bounds"] = np.array(o.bounds)
        s["metadata"] = _j({k: v for k, v in o.metadata.items() if k not in ("processed",)})
        s["visual_kind"] = o.visual.kind
        if o.visual.kind in ("face", "vertex"):
            s["face_colors"] = np.array(o.visual.face_colors)
            s["vertex_colors"] = np.array(o.visual.vertex_colors)
        if o.visual.kind == "texture":
            s["uv"] = None if o.visual.uv is None else np.array(o.visual.uv)
        if fam == "primitive":
            pr = o.primitive
            for k in ("extents", "radius", "height", "center", "transform", "sections", "subdivisions"):
                if hasattr(pr, k):
                    s["param_" + k] = np.array(getattr(pr, k), dtype=float)
            if hasattr(pr, "polygon"):
                s["param_polygon"] = np.array(pr.polygon.exterior.coords)
    elif fam == "path":
        s["vertices"] = np.array(o.vertices)
        s["entities"] = [(type(e).__name__, tuple(int(i) for i in e.points), bool(e.closed), e.layer) for e in o.entities]
        s["metadata"] = _j(dict(o.metadata))
        s["length"] = float(o.length)
        s["bounds"] = np.array(o.bounds)
        s["n_paths"] = len(o.paths)
        if kind.startswith("path2d"):
            s["area"] = float(o.area)
    elif fam == "pointcloud":
        s["vertices"] = np.array(o.vertices)
        s["colors"] = np.array(o.colors)
        s["metadata"] = _j(dict(o.metadata))
        s["bounds"] = np.array(o.bounds)
    elif fam == "scene":
        s["geometry"] = {k: (np.array(g.vertices), np.array(g.faces)) for k, g in o.geometry.items()}
        s["flat"] = {str(n): (np.array(o.graph[n][0]), o.graph[n][1]) for n in o.graph.nodes_geometry}
        s["base"] = o.graph.base_frame
        s["metadata"] = _j(dict(o.metadata))
        s["bounds"] = np.array(o.bounds)
        s["area"] = float(o.area)
    elif fam == "scenegraph":
        s["edges"] = sorted((str(a), str(b), np.array(d["matrix"]).tolist(), d.get("geometry")) for a, b, d in o.to_edgelist())
        s["nodes"] = sorted(str(n) for n in o.nodes)
        s["base"] = o.base_frame
        s["flat"] = {str(k): np.array(v["transform"]) for k, v in o.to_flattened().items()}
    elif fam == "voxel":
        s["dense"] = np.array(o.encoding.dense)
        s["transform"] = np.array(o.transform)
        s["points"] = np.array(o.points)
        s["metadata"] = _j(dict(o.metadata))
        s["shape"] = tuple(o.shape)
    return s


def snap_equal(a, b):
    """Returns the first key that differs, or None."""
    if a.keys() != b.keys():
        return "keys:" + ",".join(sorted(set(a) ^ set(b)))
    for k in a:
        x, y = a[k], b[k]
        if isinstance(x, dict) and isinstance(y, dict) and x and isinstance(next(iter(x.values())), tuple):
            if x.keys() != y.keys():
                return k
            for kk in x:
                for u, v in zip(x[kk], y[kk]):
                    if isinstance(u, np.ndarray):
                        if u.shape != v.shape or not np.allclose(u, v, rtol=0, atol=1e-12):
                            return f"{k}[{kk}]"
                    elif u != v:
                        return f"{k}[{kk}]"
            continue
        if isinstance(x, dict) and isinstance(y, dict) and x and isinstance(next(iter(x.values())), np.ndarray):
            if x.keys() != y.keys() or any(x[q].shape != y[q].shape or not np.allclose(x[q], y[q], rtol=0, atol=1e-12) for q in x):
                return k
            continue
        if isinstance(x, np.ndarray):
            if not isinstance(y, np.ndarray) or x.shape != y.shape or not (np.allclose(x, y, rtol=0, atol=1e-12) if x.dtype.kind == "f" else np.array_equal(x, y)):
                return k
        elif isinstance(x, float):
            if abs(x - y) > 1e-12 * max(1.0, abs(x)):
                return k
        elif x != y:
            return k
    return None


# ---------------------------------------------------------------------------
# edits
# ---------------------------------------------------------------------------


def edits(kind):
    fam = family(kind)
    E = {}
    if fam in ("mesh",):
        E["vertices in place"] = lambda o: o.vertices.__setitem__((0, 0), o.vertices[0, 0] + 1.0)
        E["faces in place"] = lambda o: o.faces.__setitem__(0, o.faces[0][::-1].copy())
        E["apply_transform"] = lambda o: o.apply_transform(RZ)
        E["update_faces"] = lambda o: o.update_faces(np.array([True, True, False, True]))
        E["invert"] = lambda o: o.invert()
        E["metadata nested edit"] = lambda o: o.metadata["info"]["tags"].append("x") if "info" in o.metadata else None
        E["density"] = lambda o: setattr(o, "density", 9.0)
        E["center_mass in place"] = lambda o: o.center_mass.__setitem__(0, 77.0)
        E["read everything"] = lambda o: [getattr(o, k) for k in ("face_normals", "vertex_normals", "edges_unique", "face_adjacency", "moment_inertia", "convex_hull")]
        E["cached face_normals in place"] = lambda o: _force_write(o.face_normals, 5.0)
        if kind in ("mesh", "mesh_read", "mesh_read_then_edited", "mesh_face_colors_edited"):
            E["face colour in place"] = lambda o: o.visual.face_colors.__setitem__((0, 0), 7)
            E["face colours assigned"] = lambda o: setattr(o.visual, "face_colors", np.array([[1, 2, 3, 255]] * len(o.faces), dtype=np.uint8))
        if kind in ("mesh_vertex_colors", "mesh_vertex_colors_edited"):
            E["vertex colour in place"] = lambda o: o.visual.vertex_colors.__setitem__((0, 0), 7)
        if kind == "mesh_texture":
            E["uv in place"] = lambda o: o.visual.uv.__setitem__((0, 0), 0.75)
    elif fam == "primitive":
        E["apply_transform"] = lambda o: o.apply_transform(RZ)
        E["metadata edit"] = lambda o: o.metadata.__setitem__("k", [1])
        E["transform in place"] = lambda o: _force_write(o.primitive.transform, 42.0, (0, 3))
        E["read mesh"] = lambda o: (o.vertices, o.faces, o.volume)
        if kind == "box":
            E["set extents"] = lambda o: setattr(o.primitive, "extents", [2, 2, 2])
            E["extents in place"] = lambda o: _force_write(o.primitive.extents, 9.0, 0)
        if kind in ("sphere", "cylinder", "capsule"):
            E["set radius"] = lambda o: setattr(o.primitive, "radius", 3.0)
        if kind in ("cylinder", "capsule", "extrusion"):
            E["set height"] = lambda o: setattr(o.primitive, "height", 5.0)
        E["density"] = lambda o: setattr(o, "density", 9.0)
    elif fam == "path":
        E["vertices in place"] = lambda o: o.vertices.__setitem__((0, 0), o.vertices[0, 0] + 1.0)
        E["entity points in place"] = lambda o: o.entities[1].points.__setitem__(0, 2)
        E["entity reversed"] = lambda o: o.entities[0].reverse()
        E["apply_transform"] = lambda o: o.apply_transform(np.eye(o.vertices.shape[1] + 1) * 2 + np.diag([0] * o.vertices.shape[1] + [-1]))
        E["metadata nested edit"] = lambda o: o.metadata["info"]["k"].append(9) if "info" in o.metadata else None
        E["entity layer"] = lambda o: setattr(o.entities[0], "layer", "L9")
        E["read everything"] = lambda o: (o.paths, o.discrete, o.length, o.bounds)
        E["remove entity"] = lambda o: o.remove_entities([0])
    elif fam == "pointcloud":
        E["vertices in place"] = lambda o: o.vertices.__setitem__((0, 0), 9.0)
        E["colors in place"] = lambda o: o.colors.__setitem__((0, 0), 3)
        E["apply_transform"] = lambda o: o.apply_transform(RZ)
        E["metadata nested edit"] = lambda o: o.metadata["info"]["k"].append(9)
    elif fam == "scene":
        E["geometry vertices in place"] = lambda o: o.geometry["tet"].vertices.__setitem__((0, 0), 9.0)
        E["geometry apply_transform"] = lambda o: o.geometry["box"].apply_transform(RZ)
        E["graph.update"] = lambda o: o.graph.update(frame_to="a", frame_from="world", matrix=np.eye(4), geometry="tet")
        E["apply_transform"] = lambda o: o.apply_transform(RZ)
        E["add_geometry"] = lambda o: o.add_geometry(__import__("trimesh").creation.box(), node_name="new", geom_name="newg")
        E["delete_geometry"] = lambda o: o.delete_geometry("box")
        E["metadata nested edit"] = lambda o: o.metadata["info"]["k"].append(9)
        E["edge matrix in place"] = lambda o: _force_write(o.graph.transforms.edge_data[("world", "a")]["matrix"], 5.0, (0, 3))
        E["rezero"] = lambda o: o.rezero()
        E["read everything"] = lambda o: (o.bounds, o.triangles, o.area, o.graph.to_flattened())
    elif fam == "scenegraph":
        E["update"] = lambda o: o.update("a", "world", matrix=np.eye(4))
        E["remove_node"] = lambda o: o.transforms.remove_node("b")
        E["edge matrix in place"] = lambda o: _force_write(o.transforms.edge_data[("world", "a")]["matrix"], 5.0, (0, 3))
        E["base_frame"] = lambda o: setattr(o, "base_frame", "a")
        E["query"] = lambda o: (o.get("b"), o.to_flattened())
    elif fam == "voxel":
        E["apply_transform"] = lambda o: o.apply_transform(RZ)
        E["transform in place"] = lambda o: _force_write(o.transform, 5.0, (0, 3))
        E["encoding data in place"] = lambda o: _write_encoding(o)
        E["metadata nested edit"] = lambda o: o.metadata["info"]["k"].append(9) if "info" in o.metadata else None
        E["read everything"] = lambda o: (o.points, o.bounds, o.volume)
    return E


def _force_write(arr, value, index=(0, 0)):
    """In-place write through whatever the object hands out, lifting a read-only flag if it can be lifted."""
    a = np.asarray(arr)
    try:
        a[index] = value
    except ValueError:
        pass  # read-only: shared read-only arrays are not mutable state


def _write_encoding(o):
    d = o.encoding._data
    while hasattr(d, "_data"):
        d = d._data
    if isinstance(d, dict) or hasattr(d, "data"):
        for v in (d.data.values() if hasattr(d, "data") else d.values()):
            _force_write(v, 1, tuple([0] * np.ndim(v)))
    elif isinstance(d, np.ndarray):
        _force_write(d, 1, tuple([0] * d.ndim))


# ---------------------------------------------------------------------------
# structural scan
# ---------------------------------------------------------------------------

_IMMUTABLE = (int, float, complex, str, bytes, bool, type(None), type, frozenset, np.generic)


def reachable(root, max_depth=7):
    """id -> (path, obj) for mutable objects reachable from root."""
    import types

    seen = {}
    stack = [("", root, 0)]
    while stack:
        path, o, d = stack.pop()
        if isinstance(o, _IMMUTABLE) or isinstance(o, (types.ModuleType, types.FunctionType, types.MethodType, types.BuiltinFunctionType)):
            continue
        if id(o) in seen:
            continue
        seen[id(o)] = (path, o)
        if d >= max_depth:
            continue
        if isinstance(o, np.ndarray):
            continue
        if isinstance(o, dict):
            for k, v in list(o.items()):
                stack.append((f"{path}[{k!r}]", v, d + 1))
        elif isinstance(o, (list, tuple, set)):
            for i, v in enumerate(list(o)):
                stack.append((f"{path}[{i}]", v, d + 1))
        elif hasattr(o, "__dict__"):
            for k, v in list(vars(o).items()):
                stack.append((f"{path}.{k}", v, d + 1))
    return seen


def shared_state(a, b):
    ra, rb = reachable(a), reachable(b)
    out = []
    arrays_a = [(p, o) for p, o in ra.values() if isinstance(o, np.ndarray) and o.size]
    arrays_b = [(p, o) for p, o in rb.values() if isinstance(o, np.ndarray) and o.size]
    for pa, x in arrays_a:
        for pb, y in arrays_b:
            if np.shares_memory(x, y):
                w = x.flags.writeable or y.flags.writeable
                if w:
                    out.append(("array", pa, pb))
    for i in set(ra) & set(rb):
        p, o = ra[i]
        if isinstance(o, np.ndarray):
            continue
        # the same mutable container / object reachable from both
        if isinstance(o, (dict, list, set)) and len(o) == 0:
            continue
        name = type(o).__name__
        mod = type(o).__module__ or ""
        if isinstance(o, tuple):
            continue
        if mod.startswith(("shapely", "PIL", "rtree", "embreex", "scipy", "networkx", "threading", "logging", "collections")) and not isinstance(o, (dict, list)):
            continue  # opaque library objects that trimesh never mutates in place
        out.append((name, p, rb[i][0]))
    return out


# ---------------------------------------------------------------------------


def run_kind(t, kind, tier):
    E = edits(kind)
    names = list(E)
    for rname, route in ROUTES.items():
        case0 = {"kind": kind, "route": rname}
        cls = f"{family(kind)}; {rname}"
        t.evaluations += 1
        t.nontrivial_count += 1
        try:
            a = build(kind)
            s0 = snapshot(kind, build(kind))
            b = route(a)
        except Exception as e:
            t.violation(f"copy raises {type(e).__name__} [{cls}]", dict(case0, edits=[]), {"exc": repr(e)[:300]})
            continue
        try:
            sb = snapshot(kind, b)
            sa = snapshot(kind, a)
        except Exception as e:
            t.violation(f"reading the copy raises {type(e).__name__} [{cls}]", dict(case0, edits=[]), {"exc": repr(e)[:300]})
            continue
        d = snap_equal(s0, sa)
        if d:
            t.violation(f"copying changes the original: {d.split('[')[0]} [{cls}]", dict(case0, edits=[]), {"key": d})
        d = snap_equal(s0, sb)
        if d:
            t.violation(f"copy is not faithful: {d.split('[')[0]} differs [{kind}; {rname}]", dict(case0, edits=[]), {"key": d, "original": _j(s0.get(d.split('[')[0])), "copy": _j(sb.get(d.split('[')[0]))})
        # structural scan on a fresh pair (snapshots fill caches: scan both fresh and read states)
        a2 = build(kind)
        b2 = route(a2)
        for p in shared_state(a2, b2)[:6]:
            where = _generic(p[1])
            what = "mutable object" if where.startswith("._cache.cache") else p[0]
            t.violation(f"copy shares mutable state with the original: {what} at {where} [{family(kind)}; {rname}]", dict(case0, edits=[], scan=True), {"original_path": p[1], "copy_path": p[2], "type": p[0]})
        # edits on either side
        seqs = [[n] for n in names]
        if tier == "thorough":
            seqs += [[x, y] for x in names for y in names if x != y]
        for side in ("copy", "original"):
            diverged = set()  # single edits after which the other side has already changed: not extended (pruned)
            for seq in seqs:
                if len(seq) > 1 and seq[0] in diverged:
                    t.stats["pairs pruned below a violating first edit"] += 1
                    continue
                case = dict(case0, edits=seq, side=side)
                t.evaluations += 1
                try:
                    a = build(kind)
                    b = route(a)
                    edited, other = (b, a) if side == "copy" else (a, b)
                    for n in seq:
                        try:
                            E[n](edited)
                        except Exception:
                            pass
                    so = snapshot(kind, other)
                except Exception as e:
                    t.violation(f"reading the {('original' if side == 'copy' else 'copy')} after editing the {side} raises {type(e).__name__} [{cls}]", case, {"exc": repr(e)[:300]})
                    continue
                d = snap_equal(s0, so)
                if d and len(seq) == 1:
                    diverged.add(seq[0])
                if d:
                    t.violation(f"editing the {side} ({seq[-1]}) changes the {'original' if side == 'copy' else 'copy'}: {d.split('[')[0]} [{family(kind)}; {rname}]", case, {"key": d})
    t.sample({"kind": kind, "route": "copy()", "edits": names[:2], "side": "copy"}, limit=1)


def _generic(path):
    import re

    g = re.sub(r"\[[^\]]*\]", "[*]", path)[:80]
    if g.startswith("._cache.cache"):
        return "._cache.cache[*] (a cached value)"
    return g


def _w(task):
    kind, tier = task
    t = harness.Tally()
    harness.seed_everything(0, 3)
    try:
        run_kind(t, kind, tier)
    except Exception as e:
        import traceback

        t.violation("harness: check crashed", {"kind": kind, "route": "", "edits": []}, {"exc": traceback.format_exc()[-500:]})
    return t


def replay(case):
    t = harness.Tally()
    run_kind(t, case["kind"], "thorough" if len(case.get("edits", [])) > 1 else "quick")
    return [(k, d) for k, c, d in t.violations]


def main(run):
    tasks = [(k, run.tier) for k in KINDS]
    res = harness.pmap(_w, tasks)
    run.merge(res)
    n = run.tally.evaluations
    cov = {
        "states": n + len(KINDS) * 3,
        "transitions": n,
        "traces_validated_against_impl": n,
        "exhaustive": True,
        "kinds": KINDS,
        "routes": list(ROUTES),
        "rule": "18 object states x 3 copy routes x {faithfulness, structural aliasing scan, every edit (every ordered pair of edits in thorough) applied to the copy or to the original followed by a fresh snapshot of the other side}",
    }
    return run.finish(cov, assumptions=["snapshot = geometry arrays, parameters, visuals, metadata and a few derived values", "arrays shared read-only on both sides are not mutable state", "opaque third-party objects (shapely polygons, images, spatial indexes) that trimesh never mutates in place are not reported by the scan"], confirm_limit=8)
