"""
C08 - export then load round-trips geometry in every supported format.

Engine E2: complete product of a geometry family (empty, single face, tetrahedron, box,
a face referencing vertex index >= 65536, coordinates from an extreme-value alphabet, face
and vertex colours, instanced scenes incl. a skipped empty geometry, point clouds, paths) x
exporter/loader pairs x encoding options, loaded from a file object and from a path on disk.
Oracle: same triangles in the same order, coordinates equal to the precision the format
stores (bit exact for float32 / lossless encodings), colours where carried, instance
placement for scenes, and the source object's bytes unchanged by exporting.
"""

import io
import itertools
import os
import shutil
import tempfile

import numpy as np

from mc.core import harness

LEVEL = "exploration"

COORDS = [0.0, 1.0, -1.0, 1.0 / 3.0, 1e5, -1e5, 1e-5]


def meshes():
    import trimesh

    out = {}
    tv = np.array([[0, 0, 0], [1, 0, 0], [0, 1.0 / 3.0, 0], [1e5, -1e5, 1e-5]], dtype=float)
    tf = np.array([[0, 2, 1], [0, 1, 3], [1, 2, 3], [0, 3, 2]])
    out["single_face"] = (np.array([[0, 0, 0], [1, 0, 0], [0, 1, 0.5]], dtype=float), np.array([[0, 1, 2]]))
    out["tetrahedron_extreme_coords"] = (tv, tf)
    b = trimesh.creation.box(extents=[1, 2, 3])
    out["box"] = (np.array(b.vertices), np.array(b.faces))
    # five faces: one more than a multiple of four
    out["five_faces"] = (np.array(b.vertices), np.array(b.faces)[:5])
    out["nine_faces"] = (np.array(b.vertices), np.array(b.faces)[:9])
    # every coordinate value of the alphabet
    cv = np.array(list(itertools.product(COORDS[:4], COORDS[3:], [0.0, -1e-5])), dtype=float)
    cf = np.array([[i, i + 1, i + 2] for i in range(0, len(cv) - 2, 3)])
    out["coordinate_alphabet"] = (cv, cf)
    return out


def big_index_mesh():
    n = 70000
    v = np.zeros((n, 3))
    v[:, 0] = np.arange(n) * 0.5
    v[:, 1] = (np.arange(n) % 7) * 0.25
    v[:, 2] = (np.arange(n) % 3)
    return v, np.array([[0, 65536, 69999], [65535, 65537, 1]])


FCOL = lambda n: np.column_stack([(np.arange(n) * 37 + 11) % 256, (np.arange(n) * 91 + 3) % 256, (np.arange(n) * 5 + 200) % 256, np.full(n, 255)]).astype(np.uint8)  # noqa


def mk_mesh(V, F, colors=None):
    import trimesh

    m = trimesh.Trimesh(V.copy(), F.copy(), process=False)
    if colors == "face":
        m.visual.face_colors = FCOL(len(F))
    elif colors == "vertex":
        m.visual.vertex_colors = FCOL(len(V))
    return m


# format -> (precision: 'f32' | 'exact' | digits, carries face colours, carries vertex colours, unmerges vertices)
MESH_FORMATS = {
    "stl": dict(prec="f32", fc=False, vc=False, options=[{}]),
    "stl_ascii": dict(prec="exact", fc=False, vc=False, options=[{}]),
    "ply": dict(prec="f32", fc=True, vc=True, options=[{}, {"encoding": "ascii"}, {"vertex_normal": True}, {"include_attributes": False}]),
    "off": dict(prec=8, fc=False, vc=False, options=[{}, {"digits": 4}]),
    "obj": dict(prec=8, fc=False, vc=True, options=[{}, {"digits": 4}, {"include_color": False}, {"include_normals": True}]),
    "glb": dict(prec="f32", fc=False, vc=True, options=[{}]),
    "gltf": dict(prec="f32", fc=False, vc=True, options=[{}]),
    "3mf": dict(prec="exact", fc=False, vc=False, options=[{}, {"batch_size": 4}]),
    "dae": dict(prec="f32ish", fc=False, vc=False, options=[{}]),
    "dict": dict(prec="exact", fc=True, vc=True, options=[{}]),
    "dict64": dict(prec="exact", fc=True, vc=True, options=[{}]),
}


def load_back(data, ft, via, scratch):
    """Load exported data back; returns the loaded object."""
    import trimesh

    if ft in ("dict", "dict64"):
        return trimesh.load(data, process=False)
    if ft == "gltf":
        if via == "path":
            d = tempfile.mkdtemp(dir=scratch)
            for k, v in data.items():
                with open(os.path.join(d, k), "wb") as f:
                    f.write(v)
            return trimesh.load(os.path.join(d, "model.gltf"), process=False)
        return trimesh.load(file_obj=io.BytesIO(data["model.gltf"]), file_type="gltf", resolver=trimesh.resolvers.ZipResolver(data), process=False)
    b = data if isinstance(data, bytes) else data.encode("utf-8")
    if via == "path":
        ext = {"stl_ascii": "stl"}.get(ft, ft)
        fd, path = tempfile.mkstemp(suffix="." + ext, dir=scratch)
        with os.fdopen(fd, "wb") as f:
            f.write(b)
        return trimesh.load(path, process=False)
    return trimesh.load(file_obj=io.BytesIO(b), file_type={"stl_ascii": "stl"}.get(ft, ft), process=False)


def as_mesh(res):
    import trimesh

    if isinstance(res, trimesh.Scene):
        g = list(res.geometry.values())
        if len(g) == 0:
            return None
        return res.to_mesh() if len(g) > 1 or True else g[0]
    return res


def expect_coords(V, prec, digits_opt):
    V = np.asarray(V, dtype=float)
    if prec == "exact":
        return V, 0.0
    if prec in ("f32", "f32ish"):
        return V.astype(np.float32).astype(np.float64), 0.0 if prec == "f32" else None
    d = digits_opt if digits_opt is not None else prec
    return V, None if d is None else d


def check_mesh_format(t, gname, V, F, colors, ft, opts, via, scratch):
    spec = MESH_FORMATS[ft]
    case = {"family": "mesh", "geometry": gname, "colors": colors, "format": ft, "options": opts, "via": via}
    t.evaluations += 1
    t.nontrivial_count += 1
    m = mk_mesh(V, F, colors)
    h0 = (m.vertices.tobytes(), m.faces.tobytes(), m.__hash__(), None if colors is None else np.asarray(m.visual.face_colors if colors == "face" else m.visual.vertex_colors).tobytes())
    cls = f"{ft}{'' if not opts else ' ' + ','.join(f'{k}={v}' for k, v in opts.items())}"
    try:
        data = m.export(file_type=ft, **opts)
    except Exception as e:
        t.violation(f"export raises {type(e).__name__} [{cls}; {gname}]", case, {"exc": repr(e)[:300]})
        return
    h1 = (m.vertices.tobytes(), m.faces.tobytes(), m.__hash__(), None if colors is None else np.asarray(m.visual.face_colors if colors == "face" else m.visual.vertex_colors).tobytes())
    if h0 != h1:
        t.violation(f"export modifies the exported mesh [{cls}]", case, {})
    try:
        res = load_back(data, ft, via, scratch)
        lm = as_mesh(res)
    except Exception as e:
        t.violation(f"loading the exported bytes raises {type(e).__name__} [{cls}; via {via}]", case, {"exc": repr(e)[:300]})
        return
    T0 = np.asarray(V, dtype=float)[F]
    if lm is None:
        t.violation(f"round trip loses all geometry [{cls}]", case, {"n_faces": len(F)})
        return
    T1 = np.asarray(lm.triangles)
    if T1.shape != T0.shape:
        t.violation(f"round trip changes the number of triangles [{cls}]", case, {"got": len(T1), "want": len(T0)})
        return
    digits_opt = opts.get("digits")
    prec = spec["prec"]
    if prec == "exact":
        ok = np.array_equal(T1, T0)
        tolmsg = "bit exact"
    elif prec == "f32":
        ok = np.array_equal(T1, T0.astype(np.float32).astype(np.float64))
        tolmsg = "float32 exact"
    elif prec == "f32ish":
        ok = np.allclose(T1, T0, rtol=2e-7, atol=1e-30)
        tolmsg = "float32 relative"
    else:
        d = digits_opt if digits_opt is not None else prec
        # text with d significant / decimal digits: half a unit in the last place of either reading
        ok = bool((np.abs(T1 - T0) <= 0.5 * 10.0**-d * np.maximum(1.0, np.abs(T0)) + 1e-300).all())
        tolmsg = f"{d} digits"
    if not ok:
        bad = np.argwhere(~np.isclose(T1, T0, rtol=1e-7, atol=1e-12) if prec != "exact" else T1 != T0)
        t.violation(f"round trip changes triangle coordinates or order beyond the stored precision ({tolmsg}) [{cls}]", case, {"first_bad": bad[:1], "got": T1[tuple(bad[0])] if len(bad) else None, "want": T0[tuple(bad[0])] if len(bad) else None})
        return
    # colours
    include_color = opts.get("include_color", True)
    # ascii PLY deliberately does not store face colours
    if colors == "face" and spec["fc"] and not (ft == "ply" and opts.get("encoding") == "ascii"):
        try:
            c1 = np.asarray(lm.visual.face_colors)
            if lm.visual.kind != "face" or c1.shape != (len(F), 4) or not np.array_equal(c1, FCOL(len(F))):
                t.violation(f"round trip changes face colours [{cls}]", case, {"kind": lm.visual.kind, "got": c1[:2]})
        except Exception as e:
            t.violation(f"round trip face colours raise {type(e).__name__} [{cls}]", case, {"exc": repr(e)[:200]})
    if colors == "vertex" and spec["vc"] and include_color:
        try:
            c1 = np.asarray(lm.visual.vertex_colors)
            want = FCOL(len(V))
            if lm.visual.kind != "vertex" or len(lm.vertices) != len(V) or not np.array_equal(c1[:, :3], want[:, :3]):
                # formats that unmerge vertices: compare per corner
                if lm.visual.kind == "vertex" and len(c1) == len(lm.vertices):
                    got_corner = c1[np.asarray(lm.faces)][:, :, :3]
                    want_corner = want[F][:, :, :3]
                    if got_corner.shape == want_corner.shape and np.array_equal(got_corner, want_corner):
                        return
                t.violation(f"round trip changes vertex colours [{cls}]", case, {"kind": lm.visual.kind, "n": len(c1)})
        except Exception as e:
            t.violation(f"round trip vertex colours raise {type(e).__name__} [{cls}]", case, {"exc": repr(e)[:200]})


def _w_mesh(task):
    gname, ft = task
    t = harness.Tally()
    scratch = tempfile.mkdtemp(prefix="c08_")
    try:
        if gname == "big_index":
            V, F = big_index_mesh()
            combos = [(None, {}, "fileobj")]
        else:
            V, F = meshes()[gname]
            combos = [(c, o, via) for c in (None, "face", "vertex") for o in MESH_FORMATS[ft]["options"] for via in ("fileobj", "path")]
        for colors, opts, via in combos:
            try:
                check_mesh_format(t, gname, V, F, colors, ft, opts, via, scratch)
            except Exception as e:
                t.violation("harness: mesh round trip check crashed", {"family": "mesh", "geometry": gname, "format": ft, "colors": colors, "options": opts, "via": via}, {"exc": repr(e)[:300]})
        t.sample({"family": "mesh", "geometry": gname, "format": ft}, limit=1)
    finally:
        shutil.rmtree(scratch, ignore_errors=True)
    return t


# ---------------------------------------------------------------------------
# scenes
# ---------------------------------------------------------------------------


def H(lin=None, tr=None):
    m = np.eye(4)
    if lin is not None:
        m[:3, :3] = lin
    if tr is not None:
        m[:3, 3] = tr
    return m


RZ = np.array([[0, -1, 0], [1, 0, 0], [0, 0, 1.0]])
RX = np.array([[1, 0, 0], [0, 0, -1], [0, 1, 0.0]])


def scenes():
    import trimesh

    ms = meshes()
    out = {}

    def base():
        s = trimesh.Scene()
        a = mk_mesh(*ms["tetrahedron_extreme_coords"])
        b = mk_mesh(*ms["box"])
        s.add_geometry(a, node_name="a", geom_name="tet", transform=H(RZ, [1, 2, 3]))
        s.add_geometry(b, node_name="b", geom_name="box", parent_node_name="a", transform=H(RX, [0, -4, 0.5]))
        return s

    out["nested"] = base
    def instanced():
        s = base()
        s.graph.update(frame_to="a2", frame_from="world", matrix=H(RX @ RZ, [10, 0, 0]), geometry="tet")
        s.graph.update(frame_to="b2", frame_from="a2", matrix=H(tr=[0, 0, 7]), geometry="box")
        return s

    out["instanced"] = instanced

    def with_empty():
        s = trimesh.Scene()
        s.add_geometry(mk_mesh(*ms["box"]), node_name="n0", geom_name="box", transform=H(tr=[1, 0, 0]))
        s.add_geometry(trimesh.Trimesh(), node_name="n_empty", geom_name="empty", transform=H(tr=[50, 50, 50]))
        s.add_geometry(mk_mesh(*ms["single_face"]), node_name="n1", geom_name="tri", transform=H(RZ, [0, 5, 0]))
        return s

    out["with_empty_geometry"] = with_empty

    def scaled_node():
        s = base()
        s.graph.update(frame_to="big", frame_from="world", matrix=H(np.eye(3) * 2, [0, 0, 9]), geometry="box")
        return s

    out["scaled_instance"] = scaled_node

    def cloud_first():
        # a member without faces listed before (and between) the meshes
        s = trimesh.Scene()
        s.add_geometry(trimesh.PointCloud(np.array([[9.0, 9, 9], [8, 9, 9], [9, 8, 9]])), node_name="p0", geom_name="cloud")
        s.add_geometry(mk_mesh(*ms["box"]), node_name="n0", geom_name="box", transform=H(tr=[1, 0, 0]))
        s.add_geometry(trimesh.PointCloud(np.array([[-9.0, 9, 9], [-8, 9, 9]])), node_name="p1", geom_name="cloud2")
        s.add_geometry(mk_mesh(*ms["single_face"]), node_name="n1", geom_name="tri", transform=H(RZ, [0, 5, 0]))
        return s

    out["point_clouds_before_meshes"] = cloud_first

    def near_identity():
        # node transforms that differ from the identity by little: more than the graph's rigid-repair
        # window (1e-5 on R.R^T) or in the translation only, but close enough that a relative comparison
        # with the identity would call them equal
        s = trimesh.Scene()
        box = mk_mesh(*ms["box"])
        mats = {
            "scale_8e-6": H(np.eye(3) * (1 + 8e-6)),
            "scale_x_9e-6": H(np.diag([1 + 9e-6, 1.0, 1.0])),
            "shrink_7e-6": H(np.eye(3) * (1 - 7e-6)),
            "shift_1e-7": H(tr=[1e-7, 0, -1e-7]),
            "shift_3e-6": H(tr=[0, 3e-6, 0]),
            "identity": H(),
        }
        for k, m in mats.items():
            s.add_geometry(box, node_name=k, geom_name="box", transform=m)
        s.graph.update(frame_to="child_of_scaled", frame_from="scale_8e-6", matrix=H(RZ, [0, 0, 2]), geometry="box")
        return s

    out["near_identity_nodes"] = near_identity
    return out


# scenes that only the formats able to hold their members are asked to carry
SCENE_FORMATS = {"point_clouds_before_meshes": ("glb", "gltf", "obj"), "near_identity_nodes": ("glb", "gltf", "dict", "dict64")}
# formats that store node names and node matrices as written (decimal text of the doubles, or the doubles themselves)
NODE_MATRIX_FORMATS = ("glb", "gltf", "dict", "dict64")


def canon_tris(T, q):
    out = []
    for tri in np.asarray(T, dtype=float):
        rows = [tuple(np.round(r / q).astype(np.int64).tolist()) for r in tri]
        k = rows.index(min(rows))
        out.append(tuple(rows[k:] + rows[:k]))
    return sorted(out)


def _w_scene(task):
    sname, ft, via = task
    import trimesh

    t = harness.Tally()
    scratch = tempfile.mkdtemp(prefix="c08_")
    case = {"family": "scene", "scene": sname, "format": ft, "via": via}
    try:
        s = scenes()[sname]()
        want = np.asarray(s.triangles)
        t.evaluations += 1
        t.nontrivial_count += 1
        before = {k: (np.array(g.vertices).tobytes(), np.array(getattr(g, "faces", [])).tobytes()) for k, g in s.geometry.items()}
        flat0 = {n: np.array(s.graph[n][0]) for n in s.graph.nodes_geometry}
        try:
            data = s.export(file_type=ft)
        except Exception as e:
            t.violation(f"scene export raises {type(e).__name__} [{ft}; {sname}]", case, {"exc": repr(e)[:300]})
            return t
        after = {k: (np.array(g.vertices).tobytes(), np.array(getattr(g, "faces", [])).tobytes()) for k, g in s.geometry.items()}
        if before != after or any(not np.array_equal(flat0[n], s.graph[n][0]) for n in flat0):
            t.violation(f"scene export modifies the scene [{ft}]", case, {})
        try:
            res = load_back(data, ft, via, scratch)
        except Exception as e:
            t.violation(f"loading the exported scene raises {type(e).__name__} [{ft}; via {via}]", case, {"exc": repr(e)[:300]})
            return t
        if not isinstance(res, trimesh.Scene):
            res = trimesh.Scene(res)
        try:
            got = np.asarray(res.triangles) if len(res.geometry) else np.zeros((0, 3, 3))
        except ValueError:
            got = np.zeros((0, 3, 3))  # a loaded scene without any instance
        scale = np.abs(want).max()
        q = 1e-3 * max(1.0, scale) * 1e-3  # placements compared to 1e-6 of the scene size (float32 storage)
        parents = set(s.graph.transforms.parents.values())
        feature = "a node with geometry has children" if any(n in parents for n in s.graph.nodes_geometry) else "geometry only at leaf nodes"
        if any(hasattr(g, "faces") and len(g.faces) == 0 for g in s.geometry.values()):
            feature = "scene holds an empty mesh"
        if ft in NODE_MATRIX_FORMATS and set(flat0) <= set(res.graph.nodes_geometry):
            # the format keeps node names and full-precision matrices: every instance is placed by the same matrix
            worst = max((float(np.abs(np.asarray(res.graph[n][0]) - flat0[n]).max() / max(1.0, np.abs(flat0[n]).max())), n) for n in flat0) if flat0 else (0.0, None)
            if worst[0] > 1e-12:
                small = any(0 < np.abs(flat0[n] - np.eye(4)).max() < 1e-4 for n in flat0)
                t.violation(f"scene round trip changes the transform of a node [{ft}; {'a node transform close to the identity' if small else feature}]", case, {"node": worst[1], "max_abs_rel": worst[0]})
        if got.shape != want.shape:
            t.violation(f"scene round trip changes the number of placed triangles [{ft}; {feature}]", case, {"got": len(got), "want": len(want)})
        elif canon_tris(got, q) != canon_tris(want, q):
            t.violation(f"scene round trip changes instance placement [{ft}; {feature}]", case, {"max_abs": float(np.abs(np.sort(got.reshape(-1)) - np.sort(want.reshape(-1))).max())})
    except Exception as e:
        t.violation("harness: scene round trip check crashed", case, {"exc": repr(e)[:300]})
    finally:
        shutil.rmtree(scratch, ignore_errors=True)
    return t


# ---------------------------------------------------------------------------
# point clouds and paths
# ---------------------------------------------------------------------------


def _w_points(_):
    import trimesh

    t = harness.Tally()
    scratch = tempfile.mkdtemp(prefix="c08_")
    try:
        P = np.array(list(itertools.product(COORDS, [0.0, 1.0 / 3.0], [-1e-5, 1e5])), dtype=float)
        for ft, prec in (("ply", "f32"), ("xyz", 8), ("glb", "f32")):
            for colors in (False, True):
                for via in ("fileobj", "path"):
                    case = {"family": "points", "format": ft, "colors": colors, "via": via}
                    t.evaluations += 1
                    t.nontrivial_count += 1
                    pc = trimesh.PointCloud(P.copy(), colors=FCOL(len(P)) if colors else None)
                    try:
                        data = pc.export(file_type=ft)
                        res = load_back(data, ft, via, scratch)
                        if isinstance(res, trimesh.Scene):
                            g = list(res.geometry.values())
                            res = g[0] if g else None
                        got = np.asarray(res.vertices) if res is not None else np.zeros((0, 3))
                    except Exception as e:
                        t.violation(f"point cloud round trip raises {type(e).__name__} [{ft}]", case, {"exc": repr(e)[:300]})
                        continue
                    if not np.array_equal(pc.vertices, P):
                        t.violation(f"export modifies the point cloud [{ft}]", case, {})
                    if got.shape != P.shape:
                        t.violation(f"point cloud round trip changes the number of points [{ft}]", case, {"got": got.shape})
                    elif prec == "f32" and not np.array_equal(got, P.astype(np.float32).astype(float)):
                        t.violation(f"point cloud round trip changes coordinates or order beyond float32 [{ft}]", case, {})
                    elif prec != "f32" and not (np.abs(got - P) <= 0.5 * 10.0**-prec * np.maximum(1, np.abs(P))).all():
                        t.violation(f"point cloud round trip changes coordinates or order beyond {prec} digits [{ft}]", case, {})
                    elif colors and ft in ("ply", "xyz", "glb"):
                        try:
                            c = np.asarray(res.colors)
                            if c.shape[0] != len(P) or not np.array_equal(c[:, :3], FCOL(len(P))[:, :3]):
                                t.violation(f"point cloud round trip changes colours [{ft}]", case, {"got": c[:2]})
                        except Exception as e:
                            t.violation(f"point cloud colours raise {type(e).__name__} [{ft}]", case, {"exc": repr(e)[:200]})
    finally:
        shutil.rmtree(scratch, ignore_errors=True)
    return t


def _w_paths(_):
    import trimesh
    from trimesh.path import Path2D, Path3D
    from trimesh.path.entities import Arc, Line

    t = harness.Tally()
    scratch = tempfile.mkdtemp(prefix="c08_")
    try:
        v2 = np.array([[0, 0], [4, 0], [4, 3], [0, 3], [1, 1], [2, 2], [3, 1], [1.0 / 3.0, 2.5]], dtype=float)
        paths = {
            "lines2d": lambda: Path2D(entities=[Line([0, 1, 2, 3, 0]), Line([4, 7])], vertices=v2.copy(), process=False),
            "lines+arc2d": lambda: Path2D(entities=[Line([0, 1, 2, 3, 0]), Arc([4, 5, 6])], vertices=v2.copy(), process=False),
            "lines3d": lambda: Path3D(entities=[Line([0, 1, 2, 0])], vertices=np.array([[0, 0, 0], [1, 0, 0.5], [0, 1.0 / 3.0, 2]]), process=False),
            "lines3d_several_entities": lambda: Path3D(
                entities=[Line([0, 1, 2]), Line([2, 3]), Line([4, 5, 6]), Line([6, 3]), Line([1, 5])],
                vertices=np.array([[0, 0, 0], [1, 0, 0], [1, 1, 0], [0, 1, 1], [2, 2, 2], [3, 2, 2], [3, 3, 1.0]]),
                process=False,
            ),
            "lines2d_several_entities": lambda: Path2D(entities=[Line([0, 1]), Line([1, 2, 3]), Line([3, 0]), Line([4, 5, 6, 4]), Line([7, 5])], vertices=v2.copy(), process=False),
        }

        def segset(P, q=1e-5):
            out = []
            for e in P.entities:
                d = np.asarray(e.discrete(np.asarray(P.vertices)), dtype=float)
                for a, b in zip(d[:-1], d[1:]):
                    ka, kb = tuple(np.round(a / q).astype(np.int64).tolist()), tuple(np.round(b / q).astype(np.int64).tolist())
                    if ka != kb:
                        out.append((min(ka, kb), max(ka, kb)))
            return sorted(out)

        for pname, mk in paths.items():
            for ft in ("dxf", "svg", "dict", "ply", "ply_ascii"):
                if pname.startswith("lines3d") and ft in ("svg", "dxf"):
                    continue  # planar formats
                if ft.startswith("ply") and not pname.startswith("lines3d"):
                    continue  # ply stores 3D edges
                case = {"family": "path", "path": pname, "format": ft}
                t.evaluations += 1
                t.nontrivial_count += 1
                p = mk()
                v0 = np.array(p.vertices).tobytes()
                try:
                    if ft.startswith("ply"):
                        data = trimesh.exchange.ply.export_ply(p, encoding="ascii" if ft == "ply_ascii" else "binary")
                        r = trimesh.load_path(io.BytesIO(data), file_type="ply")
                    else:
                        data = p.export(file_type=ft)
                    if ft.startswith("ply"):
                        pass
                    elif ft == "dict":
                        from trimesh.path.exchange.misc import dict_to_path

                        kw = dict_to_path(data)
                        r = (Path2D if np.asarray(kw["vertices"]).shape[1] == 2 else Path3D)(**kw)
                    else:
                        b = data if isinstance(data, bytes) else data.encode("utf-8")
                        r = trimesh.load_path(io.BytesIO(b), file_type=ft)
                except Exception as e:
                    t.violation(f"path round trip raises {type(e).__name__} [{ft}; {pname}]", case, {"exc": repr(e)[:300]})
                    continue
                if np.array(p.vertices).tobytes() != v0:
                    t.violation(f"export modifies the path [{ft}]", case, {})
                # compare the discretised curves as point sets + total length
                L0, L1 = float(p.length), float(r.length)
                if abs(L0 - L1) > 1e-5 * max(1, L0):
                    t.violation(f"path round trip changes the total length [{ft}; {pname}]", case, {"got": L1, "want": L0})
                    continue
                if all(type(e).__name__ == "Line" for e in list(p.entities) + list(r.entities)) and segset(p) != segset(r):
                    t.violation(f"path round trip changes the set of segments [{ft}; {'more than two entities' if len(p.entities) > 2 else pname}]", case, {"n_got": len(segset(r)), "n_want": len(segset(p))})
                    continue
                e0 = sorted((type(e).__name__, len(e.points)) for e in p.entities)
                e1 = sorted((type(e).__name__, len(e.points)) for e in r.entities)
                seg0 = np.vstack([np.asarray(e.discrete(np.asarray(p.vertices))) for e in p.entities]) if len(p.entities) else np.zeros((0, 2))
                seg1 = np.vstack([np.asarray(e.discrete(np.asarray(r.vertices))) for e in r.entities]) if len(r.entities) else np.zeros((0, 2))
                b0 = np.array([seg0.min(axis=0), seg0.max(axis=0)])
                b1 = np.array([seg1.min(axis=0), seg1.max(axis=0)])
                if b0.shape != b1.shape or np.abs(b0 - b1).max() > 1e-5 * max(1, np.abs(b0).max()):
                    t.violation(f"path round trip moves the geometry [{ft}; {pname}]", case, {"got": b1, "want": b0})
    finally:
        shutil.rmtree(scratch, ignore_errors=True)
    return t


def _run(task):
    return task[0](task[1])


def replay(case):
    t = harness.Tally()
    fam = case["family"]
    scratch = tempfile.mkdtemp(prefix="c08_")
    try:
        if fam == "mesh":
            if case["geometry"] == "big_index":
                V, F = big_index_mesh()
            else:
                V, F = meshes()[case["geometry"]]
            check_mesh_format(t, case["geometry"], V, F, case["colors"], case["format"], case["options"], case["via"], scratch)
        elif fam == "scene":
            t.merge(_w_scene((case["scene"], case["format"], case["via"])))
        elif fam == "points":
            t.merge(_w_points(None))
        else:
            t.merge(_w_paths(None))
    finally:
        shutil.rmtree(scratch, ignore_errors=True)
    return [(k, d) for k, c, d in t.violations]


def main(run):
    tasks = [(_w_mesh, (g, ft)) for g in list(meshes()) + ["big_index"] for ft in MESH_FORMATS]
    tasks += [(_w_scene, (s, ft, via)) for s in scenes() for ft in ("glb", "gltf", "3mf", "obj", "dict", "dict64", "stl", "ply") if ft in SCENE_FORMATS.get(s, (ft,)) for via in ("fileobj", "path")]
    tasks += [(_w_points, None), (_w_paths, None)]
    run.log(f"{len(tasks)} tasks")
    res = harness.pmap(_run, tasks)
    run.merge(res)
    cov = {
        "exhaustive": True,
        "rule": "geometry family (single face, 5 and 9 faces, tetrahedron with extreme coordinates, box, coordinate alphabet, vertex index >= 65536) x colours {none, face, vertex} x 11 mesh formats x their options x {file object, path}; 6 scenes (nested, instanced, with an empty geometry, scaled instance, point clouds first, node transforms close to the identity) x 8 scene formats, node matrices compared to 1e-12 where the format stores them (glb, gltf, dict, dict64); point clouds x ply/xyz/glb; 5 paths (incl. 5-entity 2D and 3D line paths) x dxf/svg/dict/ply binary/ply ascii with the set of segments compared for line paths",
        "formats": list(MESH_FORMATS),
    }
    return run.finish(cov, assumptions=["float32 formats: loaded coordinates must equal float32(source) exactly; text formats: half a unit of the written digits", "face colours are only demanded from formats that store per-face colours (ply, dict); vertex colours from ply, obj, glb, gltf, dict"])
