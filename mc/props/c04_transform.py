"""
C04 - homogeneous transforms act covariantly on every geometry.

Explicit enumeration of short histories (engine E1 degenerate to depth <= 3, every
history executed on real objects and compared with a reference model):
   [read everything]? -> apply M                      (L1: every point p -> M.p, nothing else)
   [read everything]? -> apply M -> apply inverse(M)   (L2: restores the geometry)
   apply A -> apply B   versus   apply B.A on a fresh object   (L3)
over geometry kinds (mesh, point cloud, Path3D, Path2D, primitives, scene, voxel grid) and
a matrix alphabet containing every class of the statement (rigid, similarity, mirror,
anisotropic scale, shear, near-identity either side of the 1e-8 / 1e-6 shortcuts).
"""

import itertools

import numpy as np

from mc.core import harness

LEVEL = "model_checking"


# ---------------------------------------------------------------------------
# matrices
# ---------------------------------------------------------------------------


def signed_perms():
    out = []
    for perm in itertools.permutations(range(3)):
        for signs in itertools.product((1, -1), repeat=3):
            m = np.zeros((3, 3))
            for i, (p, s) in enumerate(zip(perm, signs)):
                m[i, p] = s
            out.append(m)
    return out


def H(lin=None, t=None):
    m = np.eye(4)
    if lin is not None:
        m[:3, :3] = lin
    if t is not None:
        m[:3, 3] = t
    return m


R345 = np.array([[0.6, -0.8, 0], [0.8, 0.6, 0], [0, 0, 1.0]])
RX345 = np.array([[1.0, 0, 0], [0, 0.6, -0.8], [0, 0.8, 0.6]])


def matrices3(tier):
    sp = signed_perms()
    mats = {}
    for i, m in enumerate(sp):
        if tier == "thorough" or i % 5 == 0:
            mats[f"signed_perm[{'rot' if np.linalg.det(m) > 0 else 'mirror'}]#{i}"] = H(m)
    mats["translation"] = H(t=[1, -2, 3])
    mats["scale2"] = H(np.eye(3) * 2)
    mats["scale_half"] = H(np.eye(3) * 0.5, [0, 1, 0])
    mats["aniso(1,2,3)"] = H(np.diag([1.0, 2, 3]))
    mats["aniso_mirror(-1,2,1)"] = H(np.diag([-1.0, 2, 1]), [0, 0, 1])
    mats["shear"] = H(np.array([[1, 1, 0], [0, 1, 2], [0, 0, 1.0]]))
    # shears that look like rotations to a partial test: all rows (resp. columns) have unit length, they are not orthogonal
    mats["shear_unit_rows"] = H(np.array([[1, 0, 0], [0.6, 0.8, 0], [0, 0, 1.0]]), [1, 0, 2])
    mats["shear_unit_columns"] = H(np.array([[1, 0.6, 0], [0, 0.8, 0], [0, 0, 1.0]]))
    mats["rigid345"] = H(R345 @ RX345, [1, 2, 3])
    mats["similarity"] = H(2 * R345, [-1, 0, 2])
    mats["similarity_mirror"] = H(-0.5 * RX345, [0, 3, 0])
    # determinants of tiny magnitude (|det| = 1e-9): orientation must still be decided correctly
    mats["scale_tiny(1e-3)"] = H(np.eye(3) * 1e-3)
    mats["mirror_scale_tiny(1e-3)"] = H(np.diag([-1e-3, 1e-3, 1e-3]), [1, 0, 0])
    # near identity: either side of the 1e-8 identity shortcut and of the 1e-6 rotation shortcut
    for name, (i, j, e) in {
        "near_identity[translation 5e-9]": (0, 3, 5e-9),
        "near_identity[translation 5e-8]": (0, 3, 5e-8),
        "near_identity[linear 5e-9]": (0, 1, 5e-9),
        "near_identity[linear 5e-8]": (0, 1, 5e-8),
        "near_identity[linear 5e-7]": (0, 1, 5e-7),
        "near_identity[linear 5e-6]": (0, 1, 5e-6),
        "near_identity[scale 1+5e-7]": (1, 1, 5e-7),
    }.items():
        m = np.eye(4)
        m[i, j] += e
        mats[name] = m
    return mats


def matrices2():
    def H2(lin=None, t=None):
        m = np.eye(3)
        if lin is not None:
            m[:2, :2] = lin
        if t is not None:
            m[:2, 2] = t
        return m

    return {
        "rot90": H2([[0, -1], [1, 0]]),
        "rot345": H2([[0.6, -0.8], [0.8, 0.6]], [1, 2]),
        "mirror": H2([[-1, 0], [0, 1]]),
        "scale2": H2([[2, 0], [0, 2]]),
        "translation": H2(t=[3, -1]),
        "aniso": H2([[1, 0], [0, 3]]),
        "shear": H2([[1, 1], [0, 1]]),
        "similarity_mirror": H2([[0, 2], [2, 0]], [0, 1]),
        "near_identity[translation 5e-9]": H2(t=[5e-9, 0]),
        "near_identity[translation 5e-8]": H2(t=[5e-8, 0]),
    }


def mclass(name):
    return name.split("#")[0]


def tp(M, P):
    P = np.asarray(P, dtype=float)
    d = P.shape[1]
    return P @ M[:d, :d].T + M[:d, d]


# ---------------------------------------------------------------------------
# geometry kinds: builders and observations
# ---------------------------------------------------------------------------

_TET_V = np.array([[0, 0, 0], [2, 0, 0], [0, 2, 0], [0, 0, 2]], dtype=np.float64) + [1.0, 0.5, 0.25]
_TET_F = np.array([[0, 2, 1], [0, 1, 3], [1, 2, 3], [0, 3, 2]], dtype=np.int64)


def build(kind):
    import trimesh
    from trimesh import primitives
    from trimesh.path import Path2D, Path3D
    from trimesh.path.entities import Arc, Line

    if kind == "mesh_box":
        return trimesh.creation.box(extents=[2, 4, 6], transform=H(t=[1, 2, 3]))
    if kind == "mesh_tet_data":
        m = trimesh.Trimesh(_TET_V.copy(), _TET_F.copy(), process=False)
        m.visual.face_colors = np.array([[255, 0, 0, 255], [0, 255, 0, 255], [0, 0, 255, 255], [9, 9, 9, 255]], dtype=np.uint8)
        m.face_attributes["tag"] = np.arange(4)
        m.vertex_attributes["vtag"] = np.arange(4) * 10
        m.metadata["name"] = "tet"
        return m
    if kind == "mesh_tet_override":
        m = trimesh.Trimesh(_TET_V.copy(), _TET_F.copy(), process=False)
        m.center_mass = np.array([1.5, 1.0, 0.75])
        m.density = 3.0
        return m
    if kind == "pointcloud":
        return trimesh.PointCloud(_TET_V.copy(), colors=np.array([[255, 0, 0, 255], [0, 255, 0, 255], [0, 0, 255, 255], [9, 9, 9, 255]], dtype=np.uint8))
    if kind == "path3d":
        v = np.array([[0, 0, 0], [2, 0, 0], [2, 2, 0], [0, 2, 1], [1, 3, 1], [3, 1, 2]], dtype=float)
        return Path3D(entities=[Line([0, 1, 2, 3, 0]), Arc([2, 4, 5])], vertices=v, process=False)
    if kind == "path2d":
        v = np.array([[0, 0], [4, 0], [4, 3], [0, 3], [1, 1], [2, 2], [3, 1]], dtype=float)
        return Path2D(entities=[Line([0, 1, 2, 3, 0]), Arc([4, 5, 6], closed=True)], vertices=v, process=False)
    if kind == "prim_box":
        return primitives.Box(extents=[1, 2, 3], transform=H(R345, [1, 0, 2]))
    if kind == "prim_sphere":
        return primitives.Sphere(radius=1.5, center=[1, 2, 3], subdivisions=1)
    if kind == "prim_cylinder":
        return primitives.Cylinder(radius=1.0, height=3.0, sections=8, transform=H(RX345, [0, 1, 0]))
    if kind == "prim_capsule":
        return primitives.Capsule(radius=0.5, height=2.0, sections=8, transform=H(t=[1, 1, 1]))
    if kind == "prim_extrusion":
        from shapely.geometry import Polygon

        return primitives.Extrusion(polygon=Polygon([(0, 0), (2, 0), (2, 1), (0, 1)]), height=1.5, transform=H(R345, [0, 0, 1]))
    if kind == "scene":
        s = trimesh.Scene()
        a = trimesh.Trimesh(_TET_V.copy(), _TET_F.copy(), process=False)
        b = trimesh.creation.box(extents=[1, 1, 2])
        s.add_geometry(a, node_name="a", geom_name="tet", transform=H(R345, [1, 0, 0]))
        s.add_geometry(b, node_name="b", geom_name="box", parent_node_name="a", transform=H(RX345, [0, 2, 0]))
        s.add_geometry(a, node_name="a2", geom_name="tet", transform=H(t=[5, 5, 5]))
        return s
    if kind == "voxel":
        from trimesh.voxel import VoxelGrid

        d = np.zeros((2, 3, 2), dtype=bool)
        d[0, 0, 0] = d[1, 2, 1] = d[1, 0, 1] = d[0, 1, 0] = True
        return VoxelGrid(d, transform=H(np.eye(3) * 0.5, [1, 2, 3]))
    raise KeyError(kind)


KINDS3 = ["mesh_box", "mesh_tet_data", "mesh_tet_override", "pointcloud", "path3d", "prim_box", "prim_sphere", "prim_cylinder", "prim_capsule", "prim_extrusion", "scene", "voxel"]
KINDS2 = ["path2d"]


def read_all(kind, g):
    """Populate caches before the transform."""
    try:
        if kind.startswith("mesh") or kind.startswith("prim"):
            for k in ("face_normals", "vertex_normals", "volume", "center_mass", "moment_inertia", "area", "bounds", "edges", "edges_unique", "face_adjacency", "face_adjacency_angles", "is_watertight", "triangles", "convex_hull", "bounding_box_oriented"):
                getattr(g, k)
        elif kind.startswith("path"):
            for k in ("paths", "discrete", "bounds", "length", "is_closed", "vertex_graph", "extents"):
                getattr(g, k)
            if kind == "path2d":
                g.polygons_full, g.area, g.enclosure_directed, g.root
        elif kind == "scene":
            g.bounds, g.extents, g.triangles, g.centroid, g.scale
        elif kind == "voxel":
            g.points, g.bounds, g.volume, g.filled_count
        elif kind == "pointcloud":
            g.bounds, g.extents, g.convex_hull, g.centroid
    except Exception:
        pass


def observe(kind, g):
    """(points, structure, data) : the reference model's view of the geometry."""
    if kind.startswith("mesh"):
        data = {"n_vertices": len(g.vertices), "n_faces": len(g.faces), "metadata_name": g.metadata.get("name")}
        if g.visual.kind == "face":
            data["face_colors"] = np.array(g.visual.face_colors)
        for k, v in g.face_attributes.items():
            data["fa_" + k] = np.array(v)
        for k, v in g.vertex_attributes.items():
            data["va_" + k] = np.array(v)
        return np.array(g.vertices), np.array(g.faces), data
    if kind.startswith("prim"):
        # the generated mesh: as a point set plus triangle count (vertex order may be regenerated)
        return np.array(g.vertices), np.array(g.faces), {"n_vertices": len(g.vertices), "n_faces": len(g.faces)}
    if kind == "pointcloud":
        return np.array(g.vertices), None, {"colors": np.array(g.colors), "n": len(g.vertices)}
    if kind.startswith("path"):
        ents = [(type(e).__name__, tuple(int(i) for i in e.points), bool(getattr(e, "closed", False))) for e in g.entities]
        return np.array(g.vertices), ents, {"n_entities": len(g.entities)}
    if kind == "scene":
        pts = []
        for node in sorted(g.graph.nodes_geometry):
            T, name = g.graph[node]
            pts.append(tp(T, g.geometry[name].vertices))
        return np.vstack(pts), sorted((n, g.graph[n][1]) for n in g.graph.nodes_geometry), {"n_geometry": len(g.geometry)}
    if kind == "voxel":
        return np.array(g.points), tuple(g.shape), {"filled": int(g.filled_count), "dense": np.array(g.encoding.dense)}
    raise KeyError(kind)


def apply(kind, g, M):
    g.apply_transform(M.copy())


# ---------------------------------------------------------------------------
# comparisons
# ---------------------------------------------------------------------------


def ptol(M, P):
    scale = 1.0 + (np.abs(P).max() if len(P) else 0.0)
    d = M.shape[0]
    allow = 1e-9 * scale * max(1.0, np.abs(M).max())
    if np.abs(M - np.eye(d)).max() < 1e-8:
        allow += 1e-8 * scale  # the identity shortcut may ignore the matrix
    return allow


def scene_allow(kind, mname, P):
    """SceneGraph repairs products within 1e-5 of rigid (its documented repair_rigid window)."""
    if kind == "scene" and "near_identity" in mname:
        return 2e-5 * (1.0 + np.abs(P).max())
    return 0.0


def same_points(got, want, tol, ordered=True):
    if got.shape != want.shape:
        return False
    if len(got) == 0:
        return True
    if ordered:
        return float(np.abs(got - want).max()) <= tol
    # as point multisets
    a = got[np.lexsort(np.round(got / (tol * 50), 0).T[::-1])]
    b = want[np.lexsort(np.round(want / (tol * 50), 0).T[::-1])]
    if float(np.abs(a - b).max()) <= tol:
        return True
    # fall back to nearest matching (rounding can split ties)
    from scipy.spatial import cKDTree

    d, i = cKDTree(want).query(got)
    return float(d.max()) <= tol * 2 and len(set(i.tolist())) == len(want)


def faces_ok(got, want, flipped):
    """Each face is the same cyclic triple, reversed iff the transform flips orientation."""
    if got.shape != want.shape:
        return False
    for a, b in zip(got.tolist(), want.tolist()):
        if flipped:
            b = b[::-1]
        if a not in (b, b[1:] + b[:1], b[2:] + b[:2]):
            return False
    return True


def data_same(a, b):
    if a.keys() != b.keys():
        return False
    for k in a:
        x, y = a[k], b[k]
        if isinstance(x, np.ndarray):
            if x.shape != y.shape or not (x == y).all():
                return False
        elif x != y:
            return False
    return True


def solid_facts(g):
    return {
        "is_volume": bool(g.is_volume),
        "volume": float(g.volume),
        "center_mass": np.array(g.center_mass),
        "area": float(g.area),
        "inertia": np.array(g.moment_inertia),
        "bounds": np.array(g.bounds),
        "mass": float(g.mass),
    }


def geometric_normals(V, F):
    tri = V[F]
    n = np.cross(tri[:, 1] - tri[:, 0], tri[:, 2] - tri[:, 0])
    ln = np.linalg.norm(n, axis=1)
    ok = ln > 1e-12
    n[ok] /= ln[ok][:, None]
    return n, ok


def check_L1(t, kind, mname, M, preread, case):
    """apply M: every point p -> M.p and nothing else changes."""
    d = M.shape[0] - 1
    cls = f"{kind} x {mclass(mname)}{' after reads' if preread else ''}"
    g = build(kind)
    P0, S0, D0 = observe(kind, g)
    facts0 = solid_facts(g) if kind.startswith("mesh") else None
    if kind.startswith("prim"):
        params0 = prim_params(g)
    g = build(kind)  # fresh (observing fills caches)
    if preread:
        read_all(kind, g)
    det = float(np.linalg.det(M[:d, :d]))
    lin = M[:d, :d]
    gram = lin @ lin.T
    s2 = np.trace(gram) / d
    similarity = np.abs(gram - np.eye(d) * s2).max() < 1e-9 * s2
    rigid = similarity and abs(s2 - 1) < 1e-9
    try:
        apply(kind, g, M)
        raised = None
    except Exception as e:
        raised = e
    if kind.startswith("prim"):
        representable = (rigid or (similarity and kind != "prim_extrusion")) and det > 0
        if raised is not None:
            if representable:
                t.violation(f"L1: apply_transform raises {type(raised).__name__} for a representable matrix [{cls}]", case, {"exc": repr(raised)[:200]})
            elif not isinstance(raised, ValueError):
                t.violation(f"L1: apply_transform raises {type(raised).__name__} instead of ValueError [{cls}]", case, {"exc": repr(raised)[:200]})
            else:
                # the documented failure: the primitive must be unchanged
                p1 = prim_params(g)
                if not params_same(params0, p1):
                    t.violation(f"L1: apply_transform raised but left the primitive modified [{kind}]", case, {"before": params0, "after": p1})
            return
    elif raised is not None:
        t.violation(f"L1: apply_transform raises {type(raised).__name__} [{cls}]", case, {"exc": repr(raised)[:300]})
        return
    P1, S1, D1 = observe(kind, g)
    want = tp(M, P0)
    tol = ptol(M, P0) + scene_allow(kind, mname, P0)
    ordered = not kind.startswith("prim") and kind != "voxel"
    if kind == "prim_sphere":
        # the surface of a sphere is invariant under rotation about its centre: only centre and
        # radius are determined, not the position of the tessellation vertices
        c0 = P0.mean(axis=0)
        r0 = np.linalg.norm(P0 - c0, axis=1).max()
        c1 = tp(M, c0[None])[0]
        r1 = np.linalg.norm(P1 - c1, axis=1)
        if len(P1) != len(P0) or np.abs(r1 - np.sqrt(s2) * r0).max() > 1e-9 * (1 + r0 * np.sqrt(s2)) + tol:
            t.violation(f"L1: sphere vertices are not on the transformed sphere [{cls}]", case, {"radius_got": [float(r1.min()), float(r1.max())], "want": float(np.sqrt(s2) * r0)})
            return
    elif not same_points(P1, want, tol, ordered=ordered):
        t.violation(f"L1: points are not M.p [{cls}]", case, {"got": P1[:6], "want": want[:6], "tol": tol})
        return
    if kind.startswith("mesh"):
        if not faces_ok(S1, S0, det < 0):
            t.violation(f"L1: faces not kept / not re-wound exactly when det < 0 [{cls}]", case, {"got": S1[:4], "before": S0[:4], "det": det})
            return
    elif kind.startswith("prim"):
        if len(S1) != len(S0):
            t.violation(f"L1: primitive face count changed [{cls}]", case, {})
    elif S1 != S0:
        t.violation(f"L1: structure (entities / nodes / shape) changed [{cls}]", case, {"got": S1, "want": S0})
        return
    if not data_same(D0, D1):
        t.violation(f"L1: attached data changed [{cls}]", case, {"before": {k: str(v)[:80] for k, v in D0.items()}, "after": {k: str(v)[:80] for k, v in D1.items()}})
        return
    # solids
    if (kind.startswith("mesh") or kind.startswith("prim")) and abs(det) > 1e-12:
        f0 = facts0 if facts0 is not None else solid_facts(build(kind))
        f1 = solid_facts(g)
        near = "near_identity" in mname
        rt = 1e-6 if near else 1e-9
        if not f1["is_volume"]:
            t.violation(f"L1: a valid solid is no longer a valid volume [{cls}]", case, {"volume": f1["volume"]})
            return
        if abs(f1["volume"] - abs(det) * f0["volume"]) > rt * abs(det) * f0["volume"] + 1e-18:
            t.violation(f"L1: volume is not |det|.V [{cls}]", case, {"got": f1["volume"], "want": abs(det) * f0["volume"]})
        wc = tp(M, f0["center_mass"][None])[0]
        if np.abs(f1["center_mass"] - wc).max() > rt * (1 + np.abs(wc).max()) + (1e-8 if near else 0):
            t.violation(f"L1: centre of mass is not M.c [{cls}]", case, {"got": f1["center_mass"], "want": wc})
        V, F = np.array(g.vertices), np.array(g.faces)
        n, ok = geometric_normals(V, F)
        fn = np.array(g.face_normals)
        dots = (fn[ok] * n[ok]).sum(axis=1)
        if fn.shape != n.shape or (dots < 1 - (1e-5 if near else 1e-9)).any():
            t.violation(f"L1: face normals do not match the transformed triangles [{cls}]", case, {"min_dot": float(dots.min())})
        wb = np.array([want.min(axis=0), want.max(axis=0)])
        if kind != "prim_sphere" and np.abs(f1["bounds"] - wb).max() > tol:
            t.violation(f"L1: bounds are not the bounds of M.p [{cls}]", case, {"got": f1["bounds"], "want": wb})
        if similarity:
            s = np.sqrt(s2)
            if abs(f1["area"] - s * s * f0["area"]) > rt * s * s * f0["area"] + 1e-18:
                t.violation(f"L1: area is not s^2.A under a similarity [{cls}]", case, {"got": f1["area"], "want": s * s * f0["area"]})
            R = lin / s
            wi = (s**5) * R @ f0["inertia"] @ R.T
            # the tensor is obtained by subtracting V.c^2 terms: allow for that cancellation
            cancel = 1e-13 * abs(f1["volume"]) * float(np.dot(f1["center_mass"], f1["center_mass"]))
            if "override" not in kind and np.abs(f1["inertia"] - wi).max() > max(rt, 1e-9) * np.abs(wi).max() * 10 + cancel:
                t.violation(f"L1: inertia does not follow the tensor law under a similarity [{cls}]", case, {"got": f1["inertia"], "want": wi})


def prim_params(g):
    out = {"transform": np.array(g.primitive.transform)}
    for k in ("extents", "radius", "height", "center"):
        if hasattr(g.primitive, k):
            try:
                out[k] = np.array(getattr(g.primitive, k), dtype=float)
            except Exception:
                pass
    out["vertices"] = np.array(g.vertices)
    return out


def params_same(a, b):
    return a.keys() == b.keys() and all(np.shape(a[k]) == np.shape(b[k]) and np.allclose(a[k], b[k], rtol=0, atol=1e-12) for k in a)


def check_L2(t, kind, mname, M, preread, case):
    d = M.shape[0] - 1
    if abs(np.linalg.det(M[:d, :d])) < 1e-12:
        return
    cls = f"{kind} x {mclass(mname)}{' after reads' if preread else ''}"
    g = build(kind)
    P0, S0, D0 = observe(kind, g)
    g = build(kind)
    if preread:
        read_all(kind, g)
    try:
        apply(kind, g, M)
        if preread:
            read_all(kind, g)
        apply(kind, g, np.linalg.inv(M))
    except Exception as e:
        if kind.startswith("prim") and isinstance(e, ValueError):
            return
        t.violation(f"L2: M then inverse(M) raises {type(e).__name__} [{cls}]", case, {"exc": repr(e)[:200]})
        return
    P1, S1, D1 = observe(kind, g)
    tol = ptol(M, P0) * 10 * max(1.0, np.abs(np.linalg.inv(M)).max()) + 2 * scene_allow(kind, mname, P0)
    if kind == "prim_sphere":
        return
    if "near_identity" in mname:
        tol += 2e-8 * (1 + np.abs(P0).max())
    ordered = not kind.startswith("prim") and kind != "voxel"
    if not same_points(P1, P0, tol, ordered=ordered):
        t.violation(f"L2: M then inverse(M) does not restore the points [{cls}]", case, {"got": P1[:5], "want": P0[:5]})
    elif kind.startswith("mesh") and not faces_ok(S1, S0, False):
        t.violation(f"L2: M then inverse(M) does not restore the faces [{cls}]", case, {"got": S1[:4], "want": S0[:4]})
    elif not kind.startswith("mesh") and not kind.startswith("prim") and S1 != S0:
        t.violation(f"L2: M then inverse(M) changes the structure [{cls}]", case, {})
    elif not data_same(D0, D1):
        t.violation(f"L2: M then inverse(M) changes attached data [{cls}]", case, {})
    elif kind.startswith("mesh"):
        f0 = solid_facts(build(kind))
        f1 = solid_facts(g)
        if not f1["is_volume"] or abs(f1["volume"] - f0["volume"]) > 1e-6 * max(1, f0["volume"]) or np.abs(f1["center_mass"] - f0["center_mass"]).max() > 1e-6 * (1 + np.abs(f0["center_mass"]).max()):
            t.violation(f"L2: M then inverse(M) does not restore volume / centre of mass [{cls}]", case, {"got": {k: f1[k] for k in ("volume", "center_mass")}, "want": {k: f0[k] for k in ("volume", "center_mass")}})
        V, F = np.array(g.vertices), np.array(g.faces)
        n, ok = geometric_normals(V, F)
        dots = (np.array(g.face_normals)[ok] * n[ok]).sum(axis=1)
        if (dots < 1 - 1e-5).any():
            t.violation(f"L2: after M then inverse(M) face normals do not match the triangles [{cls}]", case, {"min_dot": float(dots.min())})


def check_L3(t, kind, an, A, bn, B, case):
    cls = f"{kind} x {mclass(an)} then {mclass(bn)}"
    g1 = build(kind)
    g2 = build(kind)
    try:
        apply(kind, g1, A)
        apply(kind, g1, B)
        ok1 = True
    except Exception as e:
        ok1 = False
        e1 = e
    try:
        apply(kind, g2, B @ A)
        ok2 = True
    except Exception as e:
        ok2 = False
    if not ok1 or not ok2:
        if kind.startswith("prim"):
            return  # unrepresentable steps are L1's business
        t.violation(f"L3: composition raises [{cls}]", case, {"sequential_ok": ok1, "product_ok": ok2})
        return
    P1, S1, D1 = observe(kind, g1)
    P2, S2, D2 = observe(kind, g2)
    scale = 1 + np.abs(P2).max()
    tol = 1e-9 * scale * max(1.0, np.abs(A).max() * np.abs(B).max()) + (3e-8 * scale if ("near_identity" in an or "near_identity" in bn) else 0)
    ordered = not kind.startswith("prim") and kind != "voxel"
    tol += scene_allow(kind, an, P2) + scene_allow(kind, bn, P2)
    if kind == "prim_sphere":
        return
    if not same_points(P1, P2, tol, ordered=ordered):
        t.violation(f"L3: applying A then B differs from applying B.A [{cls}]", case, {"sequential": P1[:5], "product": P2[:5]})
    elif kind.startswith("mesh") and not faces_ok(S1, S2, False):
        t.violation(f"L3: applying A then B winds faces differently from B.A [{cls}]", case, {"sequential": S1[:4], "product": S2[:4]})
    elif kind.startswith("mesh"):
        f1, f2 = solid_facts(g1), solid_facts(g2)
        if f1["is_volume"] != f2["is_volume"] or abs(f1["volume"] - f2["volume"]) > 1e-6 * max(1, abs(f2["volume"])):
            t.violation(f"L3: validity / volume differ between A then B and B.A [{cls}]", case, {"sequential": f1["volume"], "product": f2["volume"]})


# ---------------------------------------------------------------------------


L4_READERS = {
    "path2d": ["paths", "discrete", "bounds", "length", "is_closed", "vertex_graph", "polygons_full", "area", "ALL"],
    "path3d": ["paths", "discrete", "bounds", "length", "is_closed", "vertex_graph", "ALL"],
    "pointcloud": ["bounds", "extents", "convex_hull", "centroid", "bounding_box_oriented", "bounding_sphere", "ALL"],
    "mesh_box": ["face_normals", "bounds", "area", "volume", "convex_hull", "bounding_box_oriented", "triangles", "ALL"],
}


def _l4_edits(kind):
    def open_loop(g):
        g.entities[0].points = g.entities[0].points[:-1]

    def verts_scale(g):
        g.vertices *= 2.0

    def vert_item(g):
        g.vertices[0, 0] += 1.0

    if kind.startswith("path"):
        return {"none": None, "entity 0 loses its closing point": open_loop, "vertices doubled in place": verts_scale}
    return {"none": None, "one coordinate edited in place": vert_item}


def _l4_fresh(kind, g):
    import trimesh

    if kind.startswith("path"):
        return type(g)(entities=[type(e)(points=np.array(e.points).copy(), **({"closed": True} if getattr(e, "closed", False) and type(e).__name__ == "Arc" else {})) for e in g.entities], vertices=np.array(g.vertices).copy(), process=False)
    if kind == "pointcloud":
        return trimesh.PointCloud(np.array(g.vertices).copy())
    return trimesh.Trimesh(np.array(g.vertices).copy(), np.array(g.faces).copy(), process=False)


def _l4_derived(kind, g):
    out = {}
    if kind.startswith("path"):
        out["n_paths"] = len(g.paths)
        out["is_closed"] = bool(g.is_closed)
        out["bounds"] = np.array(g.bounds)
        out["length"] = float(g.length)
        out["discrete"] = np.array(sorted(map(tuple, np.round(np.vstack([np.asarray(d) for d in g.discrete]), 7).tolist()))) if len(g.discrete) else np.zeros((0, 2))
        if kind == "path2d":
            out["area"] = float(g.area)
    elif kind == "pointcloud":
        # the cached values first: touching g.vertices (as bounds does) can itself refresh the cache
        h = g.convex_hull
        out["hull_bounds"] = np.array(h.bounds)
        out["hull_volume"] = float(h.volume)
        out["sphere_centre"] = np.array(g.bounding_sphere.primitive.center) if hasattr(g, "bounding_sphere") else np.zeros(3)
        out["obb_volume"] = float(np.prod(g.bounding_box_oriented.primitive.extents))
        out["obb_centre"] = np.array(g.bounding_box_oriented.primitive.transform)[:3, 3]
        out["bounds"] = np.array(g.bounds)
        out["extents"] = np.array(g.extents)
        out["centroid"] = np.array(g.centroid)
    else:
        out["hull_volume"] = float(g.convex_hull.volume)
        out["hull_bounds"] = np.array(g.convex_hull.bounds)
        out["obb_volume"] = float(np.prod(g.bounding_box_oriented.primitive.extents))
        out["face_normals"] = np.array(g.face_normals)
        out["area"] = float(g.area)
        out["volume"] = float(g.volume)
        out["bounds"] = np.array(g.bounds)
    return out


def check_L4(t, kind, mname, M, reader, ename, case):
    """read one derived value (or all) -> optional in-place edit -> apply M -> every derived value must be that of
    an object freshly built from the raw data the object now holds."""
    g = build(kind)
    try:
        if reader == "ALL":
            read_all(kind, g)
        else:
            getattr(g, reader)
    except Exception:
        pass
    edit = _l4_edits(kind)[ename]
    if edit is not None:
        edit(g)
    apply(kind, g, M)
    try:
        got = _l4_derived(kind, g)
    except Exception as e:
        # is the raw data itself unusable (then a fresh object fails the same way)?
        try:
            _l4_derived(kind, _l4_fresh(kind, g))
        except Exception:
            return
        t.violation(f"L4: derived values raise {type(e).__name__} after [read {reader}; {ename}; apply_transform] but not on a fresh object [{kind} x {mclass(mname)}]", case, {"exc": repr(e)[:200]})
        return
    want = _l4_derived(kind, _l4_fresh(kind, g))
    for k in want:
        a, b = np.asarray(got[k], dtype=float), np.asarray(want[k], dtype=float)
        if a.shape != b.shape or (a.size and np.abs(a - b).max() > 1e-7 * max(1.0, np.abs(b).max())):
            t.violation(f"L4: {k} after [read; edit; apply_transform] differs from a fresh object with the same raw data [{kind} x {mclass(mname)}; edit: {ename}]", case, {"got": got[k], "want": want[k]})
            return


def _w(task):
    law, kind, tier = task
    t = harness.Tally()
    if law == "L4":
        mats = matrices2() if kind == "path2d" else matrices3(tier)
        reps = {}
        for mn in mats:
            reps.setdefault(mclass(mn), mn)
        for mn in reps.values():
            if "near" in mclass(mn) or "tiny" in mn:
                continue
            if kind.startswith("path") and ("aniso" in mn or "shear" in mn):
                # the drawings hold arcs: an arc is only mapped to an arc by a similarity
                continue
            for reader in L4_READERS[kind]:
                for ename in _l4_edits(kind):
                    case = {"law": "L4", "kind": kind, "matrix": mn, "reader": reader, "edit": ename}
                    t.evaluations += 1
                    t.nontrivial_count += 1
                    try:
                        check_L4(t, kind, mn, mats[mn], reader, ename, case)
                    except Exception as e:
                        t.violation(f"harness: L4 check crashed [{kind}]", case, {"exc": repr(e)[:300]})
        t.sample({"law": "L4", "kind": kind, "reader": L4_READERS[kind][0], "edit": list(_l4_edits(kind))[1]}, limit=1)
        return t
    mats = matrices2() if kind == "path2d" else matrices3(tier)
    names = list(mats)
    np.random.seed(7)
    if kind.startswith("prim"):
        # primitives are re-tessellated by creation functions that merge vertices with the absolute
        # tolerance 1e-8: a primitive of size 1e-3 is outside their domain
        names = [n for n in names if "tiny" not in n]
    if law in ("L1", "L2"):
        for mn in names:
            for pre in (False, True):
                case = {"law": law, "kind": kind, "matrix": mn, "preread": pre}
                t.evaluations += 1
                t.nontrivial_count += 1
                np.random.seed(1 + t.evaluations)
                try:
                    (check_L1 if law == "L1" else check_L2)(t, kind, mn, mats[mn], pre, case)
                except Exception as e:
                    t.violation(f"harness: {law} check crashed [{kind}]", case, {"exc": repr(e)[:300]})
        t.sample({"law": law, "kind": kind, "matrix": names[0], "preread": True}, limit=1)
    else:
        # L3 on a reduced set of pairs: one representative per class
        reps = {}
        for mn in names:
            reps.setdefault(mclass(mn), mn)
        rn = list(reps.values())
        for an in rn:
            for bn in rn:
                case = {"law": "L3", "kind": kind, "A": an, "B": bn}
                t.evaluations += 1
                t.nontrivial_count += 1
                np.random.seed(1 + t.evaluations)
                try:
                    check_L3(t, kind, an, mats[an], bn, mats[bn], case)
                except Exception as e:
                    t.violation(f"harness: L3 check crashed [{kind}]", case, {"exc": repr(e)[:300]})
    return t


def replay(case):
    t = harness.Tally()
    kind = case["kind"]
    mats = matrices2() if kind == "path2d" else matrices3("thorough")
    np.random.seed(3)
    if case["law"] == "L4":
        check_L4(t, kind, case["matrix"], mats[case["matrix"]], case["reader"], case["edit"], case)
    elif case["law"] == "L1":
        check_L1(t, kind, case["matrix"], mats[case["matrix"]], case["preread"], case)
    elif case["law"] == "L2":
        check_L2(t, kind, case["matrix"], mats[case["matrix"]], case["preread"], case)
    else:
        check_L3(t, kind, case["A"], mats[case["A"]], case["B"], mats[case["B"]], case)
    return [(k, d) for k, c, d in t.violations]


def main(run):
    tier = run.tier
    tasks = [(law, kind, tier) for law in ("L1", "L2", "L3") for kind in KINDS3 + KINDS2]
    tasks += [("L4", kind, tier) for kind in L4_READERS]
    res = harness.pmap(_w, tasks)
    run.merge(res)
    n = run.tally.evaluations
    cov = {
        "states": n * 3,
        "transitions": n * 2,
        "traces_validated_against_impl": n,
        "exhaustive": True,
        "kinds": KINDS3 + KINDS2,
        "matrices": list(matrices3(tier)),
        "rule": "every history (read-all)? -> apply M, (read-all)? -> M -> inverse(M), and A -> B versus B.A for every geometry kind x matrix of the alphabet (L3: one representative per matrix class, all ordered pairs); each compared with the reference model 'every point p -> M.p, connectivity and attached data unchanged, faces re-wound iff det < 0'",
    }
    return run.finish(cov, assumptions=[
        "a matrix within 1e-8 of the identity may be ignored (error <= 1e-8(1+|p|)); a matrix outside the shortcut must be applied",
        "primitives: rigid and (except Extrusion) uniform-scale matrices must succeed; for others ValueError is accepted but the primitive must be unchanged",
        "primitive and voxel points are compared as point multisets",
    ])
