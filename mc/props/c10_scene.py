"""
C10 - scene-level quantities equal explicit placement of every instance.

Engine E1 (histories of length <= 2 over real Scene objects against a placement-list
model).  A scene is described by my own forest {node: (parent, local matrix, geometry)}
and geometry arrays; the reference "placement list" is every (node, geometry) with the
world matrix (product of local matrices) applied to the geometry's vertices.  Every
quantity of the real scene is compared with the value computed from the placement list;
every action has a specification on the placement list; the source scene must be
unchanged by actions that return a new scene.
"""

import itertools

import numpy as np

from mc.core import harness

LEVEL = "model_checking"

_TET_V = np.array([[0, 0, 0], [2, 0, 0], [0, 2, 0], [0, 0, 2]], dtype=np.float64)
_TET_F = np.array([[0, 2, 1], [0, 1, 3], [1, 2, 3], [0, 3, 2]], dtype=np.int64)


def H(lin=None, t=None):
    m = np.eye(4)
    if lin is not None:
        m[:3, :3] = lin
    if t is not None:
        m[:3, 3] = t
    return m


RZ = np.array([[0, -1, 0], [1, 0, 0], [0, 0, 1.0]])
RX = np.array([[1, 0, 0], [0, 0, -1], [0, 1, 0.0]])
EDGE = {
    "I": H(),
    "T": H(t=[1, 2, 3]),
    "Rz": H(RZ),
    "RxT": H(RX, [0, 2, 0]),
    "S2": H(np.eye(3) * 2, [0, 0, 1]),
}


def tp(M, P):
    return np.asarray(P, dtype=float) @ M[:3, :3].T + M[:3, 3]


def box_arrays():
    import trimesh

    b = trimesh.creation.box(extents=[1, 2, 3])
    return np.array(b.vertices), np.array(b.faces)


class Model:
    """My own description of a scene."""

    def __init__(self):
        self.nodes = {}  # name -> (parent, matrix, geometry name or None)
        self.geoms = {}  # name -> dict(kind, V, F)
        self.base = "world"

    def copy(self):
        m = Model()
        m.nodes = {k: (p, M.copy(), g) for k, (p, M, g) in self.nodes.items()}
        m.geoms = {k: {kk: (vv.copy() if hasattr(vv, "copy") else vv) for kk, vv in v.items()} for k, v in self.geoms.items()}
        m.base = self.base
        return m

    def world(self, n):
        M = np.eye(4)
        while n != self.base and n in self.nodes:
            p, L, _ = self.nodes[n]
            M = L @ M
            n = p
        return M

    def placements(self):
        out = []
        for n, (p, L, g) in self.nodes.items():
            if g is not None and g in self.geoms:
                out.append((n, g, self.world(n)))
        return out

    # quantities -------------------------------------------------------------
    def placed_vertices(self):
        pts = [tp(W, self.geoms[g]["V"]) for _, g, W in self.placements()]
        return np.vstack(pts) if pts else np.zeros((0, 3))

    def placed_triangles(self):
        tri = []
        for _, g, W in self.placements():
            G = self.geoms[g]
            if G["kind"] == "mesh":
                tri.append(tp(W, G["V"])[G["F"]])
        return np.vstack(tri) if tri else np.zeros((0, 3, 3))

    def area(self):
        t = self.placed_triangles()
        return float(np.linalg.norm(np.cross(t[:, 1] - t[:, 0], t[:, 2] - t[:, 0]), axis=1).sum() / 2) if len(t) else 0.0

    def unscaled(self, what):
        """Sum over instances of the geometry's own (untransformed) area / volume."""
        tot = 0.0
        for _, g, W in self.placements():
            G = self.geoms[g]
            if G["kind"] != "mesh":
                continue
            t = G["V"][G["F"]]
            if what == "area":
                tot += float(np.linalg.norm(np.cross(t[:, 1] - t[:, 0], t[:, 2] - t[:, 0]), axis=1).sum() / 2)
            else:
                tot += float(np.einsum("ij,ij->i", t[:, 0], np.cross(t[:, 1], t[:, 2])).sum() / 6)
        return tot

    def volume(self):
        # per instance, about a point of the instance: signed tetrahedra about the world origin cancel
        # catastrophically for a scene that is far from it
        tot = 0.0
        for _, g, W in self.placements():
            G = self.geoms[g]
            if G["kind"] != "mesh":
                continue
            P = tp(W, G["V"])
            t = (P - P.mean(axis=0))[G["F"]]
            tot += float(np.einsum("ij,ij->i", t[:, 0], np.cross(t[:, 1], t[:, 2])).sum() / 6)
        return tot


def build_scene(model):
    import trimesh

    s = trimesh.Scene(base_frame=model.base)
    gobj = {}
    for name, G in model.geoms.items():
        if G["kind"] == "mesh":
            gobj[name] = trimesh.Trimesh(G["V"].copy(), G["F"].copy(), process=False)
        elif G["kind"] == "points":
            gobj[name] = trimesh.PointCloud(G["V"].copy())
        elif G["kind"] == "path2d":
            from trimesh.path import Path2D
            from trimesh.path.entities import Line

            # a planar drawing: the model keeps its vertices as 3D points with z = 0
            gobj[name] = Path2D(entities=[Line(list(range(len(G["V"]))))], vertices=G["V"][:, :2].copy(), process=False)
        else:
            from trimesh.path import Path3D
            from trimesh.path.entities import Line

            gobj[name] = Path3D(entities=[Line(list(range(len(G["V"]))))], vertices=G["V"].copy(), process=False)
    used = set()
    # parents before children
    order = []
    pending = dict(model.nodes)
    while pending:
        for n, (p, L, g) in list(pending.items()):
            if p == model.base or p in order:
                order.append(n)
                del pending[n]
    for n in order:
        p, L, g = model.nodes[n]
        if g is None:
            s.graph.update(frame_to=n, frame_from=p, matrix=L.copy())
        elif g not in used:
            s.add_geometry(gobj[g], node_name=n, geom_name=g, parent_node_name=p, transform=L.copy())
            used.add(g)
        else:
            # another instance of a geometry the scene already holds
            s.graph.update(frame_to=n, frame_from=p, matrix=L.copy(), geometry=g)
    for name in model.geoms:
        if name not in used:
            s.geometry[name] = gobj[name]  # geometry present but not referenced by any node
    return s


# ---------------------------------------------------------------------------
# scene family
# ---------------------------------------------------------------------------


def scene_family(tier):
    bv, bf = box_arrays()
    geoms = {
        "tet": {"kind": "mesh", "V": _TET_V.copy(), "F": _TET_F.copy()},
        "box": {"kind": "mesh", "V": bv, "F": bf},
    }
    names = list(EDGE)
    pairs = list(itertools.product(names, repeat=2)) if tier == "thorough" else [(a, b) for a in names for b in names if (names.index(a) + 2 * names.index(b)) % 3 != 1 or "S2" in (a, b)]
    fam = {}
    for e1, e2 in pairs:
        m = Model()
        m.geoms = {k: dict(v) for k, v in geoms.items()}
        m.nodes = {"a": ("world", EDGE[e1].copy(), "tet"), "b": ("a", EDGE[e2].copy(), "box")}
        fam[f"chain[{e1},{e2}]"] = m
        m = Model()
        m.geoms = {k: dict(v) for k, v in geoms.items()}
        m.nodes = {"a": ("world", EDGE[e1].copy(), "tet"), "a2": ("world", EDGE[e2].copy(), "tet"), "c": ("a2", EDGE["T"].copy(), "box")}
        fam[f"instanced[{e1},{e2}]"] = m
    # extras: node without geometry, unreferenced geometry, mixed kinds
    m = Model()
    m.geoms = {k: dict(v) for k, v in geoms.items()}
    m.geoms["pts"] = {"kind": "points", "V": _TET_V.copy() + 5.0}
    m.geoms["path"] = {"kind": "path", "V": np.array([[0, 0, 0], [1, 0, 0], [1, 1, 0], [0, 1, 1.0]])}
    m.geoms["unused"] = {"kind": "mesh", "V": _TET_V.copy() * 100, "F": _TET_F.copy()}
    m.nodes = {"frame": ("world", EDGE["RxT"].copy(), None), "a": ("frame", EDGE["T"].copy(), "tet"), "p": ("frame", EDGE["Rz"].copy(), "pts"), "q": ("a", EDGE["Rz"].copy(), "path")}
    fam["mixed kinds, empty frame, unreferenced geometry"] = m
    # planar drawings: placed by an in-plane rotation + in-plane translation, by a pure in-plane translation,
    # and out of plane; next to a mesh
    m = Model()
    m.geoms = {"tet": dict(geoms["tet"])}
    m.geoms["draw"] = {"kind": "path2d", "V": np.array([[0, 0, 0], [3, 0, 0], [3, 1, 0], [0, 2, 0.0]])}
    m.geoms["draw2"] = {"kind": "path2d", "V": np.array([[1, 1, 0], [2, 1, 0], [2, 3, 0.0]])}
    m.nodes = {
        "a": ("world", EDGE["T"].copy(), "tet"),
        "d1": ("world", H(RZ, [5.0, -7.0, 0.0]), "draw"),
        "d2": ("world", H(t=[-4.0, 6.0, 0.0]), "draw2"),
    }
    fam["planar drawings placed in their plane"] = m
    m = Model()
    m.geoms = {"tet": dict(geoms["tet"])}
    m.geoms["draw"] = {"kind": "path2d", "V": np.array([[0, 0, 0], [3, 0, 0], [3, 1, 0], [0, 2, 0.0]])}
    m.nodes = {"a": ("world", EDGE["T"].copy(), "tet"), "d1": ("a", EDGE["RxT"].copy(), "draw"), "d2": ("world", H(RZ, [5.0, -7.0, 2.0]), "draw")}
    fam["planar drawing instanced out of its plane"] = m
    # a scene far from the origin: entries of the edge matrices are 2e4, edits are 0.05
    m = Model()
    m.geoms = {k: dict(v) for k, v in geoms.items()}
    m.nodes = {"a": ("world", H(RZ, [2.0e4, -1.5e4, 3.0e3]), "tet"), "b": ("a", H(t=[1.0e4, 2.0, 3.0]), "box")}
    fam["chain far from the origin"] = m
    return fam


# ---------------------------------------------------------------------------
# reading the real scene against the model
# ---------------------------------------------------------------------------


def sorted_rows(a, nd=7):
    if len(a) == 0:
        return np.zeros((0, 3))
    a = np.round(np.asarray(a, dtype=float).reshape(len(a), -1), nd) + 0.0
    return a[np.lexsort(a.T[::-1])] if len(a) else a


def canon_tris(t):
    """Triangles as a multiset, each triangle as cyclic class (rotation to smallest vertex first)."""
    out = []
    for tri in np.round(np.asarray(t, dtype=float), 7) + 0.0:
        rows = [tuple(r) for r in tri]
        k = rows.index(min(rows))
        out.append(tuple(rows[k:] + rows[:k]))
    return sorted(out)


def compare_scene(t, s, model, key_prefix, case, tol=1e-9):
    """All scene-level quantities of `s` against the placement list of `model`."""
    def bad(what, detail):
        t.violation(f"{key_prefix} -> {what}", case, detail)

    pv = model.placed_vertices()
    scale = 1.0 + (np.abs(pv).max() if len(pv) else 0.0)
    ok = True
    try:
        b = s.bounds
        if len(pv):
            wb = np.array([pv.min(axis=0), pv.max(axis=0)])
            if b is None or np.abs(np.asarray(b) - wb).max() > tol * scale:
                bad("bounds differ from the bounds of the placed vertices", {"got": b, "want": wb})
                ok = False
            else:
                if np.abs(np.asarray(s.extents) - (wb[1] - wb[0])).max() > tol * scale:
                    bad("extents differ", {"got": s.extents})
                if np.abs(np.asarray(s.centroid) - wb.mean(axis=0)).max() > tol * scale:
                    bad("centroid differs from the centre of the bounds", {"got": s.centroid})
    except Exception as e:
        bad(f"bounds raises {type(e).__name__}", {"exc": repr(e)[:200]})
        ok = False
    try:
        wa = model.area()
        if abs(float(s.area) - wa) > 1e-9 * max(1.0, wa):
            if abs(float(s.area) - model.unscaled("area")) <= 1e-9 * max(1.0, wa):
                t.violation("Scene.area ignores the scale of the node transforms", case, {"got": float(s.area), "want": wa})
            else:
                bad("area differs from the summed area of the placed copies", {"got": float(s.area), "want": wa})
    except Exception as e:
        bad(f"area raises {type(e).__name__}", {"exc": repr(e)[:200]})
    try:
        wv = model.volume()
        if abs(float(s.volume) - wv) > 1e-9 * max(1.0, abs(wv)):
            if abs(float(s.volume) - model.unscaled("volume")) <= 1e-9 * max(1.0, abs(wv)):
                t.violation("Scene.volume ignores the scale of the node transforms", case, {"got": float(s.volume), "want": wv})
            else:
                bad("volume differs from the summed volume of the placed copies", {"got": float(s.volume), "want": wv})
    except Exception as e:
        bad(f"volume raises {type(e).__name__}", {"exc": repr(e)[:200]})
    wt = model.placed_triangles()
    try:
        gt = np.asarray(s.triangles) if len(wt) else np.zeros((0, 3, 3))
        if gt.shape != wt.shape or canon_tris(gt) != canon_tris(wt):
            bad("triangles differ from the placed triangles", {"n_got": len(gt), "n_want": len(wt)})
    except Exception as e:
        if len(wt):
            bad(f"triangles raises {type(e).__name__}", {"exc": repr(e)[:200]})
    try:
        d = s.dump()
        got = sorted_rows(np.vstack([np.asarray(g.vertices) if np.asarray(g.vertices).shape[1] == 3 else np.column_stack([g.vertices, np.zeros(len(g.vertices))]) for g in d])) if len(d) else np.zeros((0, 3))
        want = sorted_rows(pv)
        if got.shape != want.shape or (len(want) and np.abs(got - want).max() > 1e-6 * scale):
            bad("dump() vertices differ from the placed vertices", {"n_got": len(got), "n_want": len(want)})
        elif len(d) != len(model.placements()):
            bad("dump() has a different number of geometries than placements", {"got": len(d), "want": len(model.placements())})
    except Exception as e:
        bad(f"dump raises {type(e).__name__}", {"exc": repr(e)[:200]})
    if len(wt):
        try:
            mm = s.to_mesh()
            if canon_tris(np.asarray(mm.triangles)) != canon_tris(wt):
                bad("to_mesh() triangles differ from the placed triangles", {"n_got": len(mm.triangles), "n_want": len(wt)})
        except Exception as e:
            bad(f"to_mesh raises {type(e).__name__}", {"exc": repr(e)[:200]})
        try:
            hull = s.convex_hull
            hv = np.asarray(hull.vertices)
            from scipy.spatial import cKDTree

            dd, _ = cKDTree(pv).query(hv)
            if dd.max() > 1e-6 * scale:
                bad("convex_hull has a vertex that is not a placed vertex", {"dist": float(dd.max())})
            else:
                # every placed vertex inside: signed distance to every hull facet plane <= tol
                n = np.asarray(hull.face_normals)
                o = np.asarray(hull.triangles)[:, 0]
                dist = (pv[:, None, :] - o[None, :, :]) @ np.ones(1) if False else np.einsum("pfk,fk->pf", pv[:, None, :] - o[None, :, :], n)
                if dist.max() > 1e-6 * scale:
                    bad("convex_hull does not contain every placed vertex", {"outside_by": float(dist.max())})
        except Exception as e:
            bad(f"convex_hull raises {type(e).__name__}", {"exc": repr(e)[:200]})
    return ok


def read_everything(s):
    for k in ("bounds", "extents", "centroid", "scale", "area", "volume", "triangles", "convex_hull", "bounds_corners"):
        try:
            getattr(s, k)
        except Exception:
            pass
    try:
        s.graph.to_flattened()
    except Exception:
        pass


# ---------------------------------------------------------------------------
# actions: (name, real(scene) -> scene to check, spec(model) -> model, returns_new)
# ---------------------------------------------------------------------------


def mtransform(model, M):
    """Every world placement multiplied by M: expressed as a new root above the old base."""
    m = model.copy()
    m2 = Model()
    m2.geoms = m.geoms
    k = 1
    while ("__root%d__" % k) in m.nodes or ("__root%d__" % k) == m.base:
        k += 1
    m2.base = "__root%d__" % k
    m2.nodes = dict(m.nodes)
    m2.nodes[m.base] = (m2.base, M.copy(), None)
    return m2


def mscale(model, S):
    return mtransform(model, H(np.diag(np.asarray(S, dtype=float))))


M_APPLY = H(RZ @ RX, [3, -1, 2])


def actions():
    def a_copy(s):
        return s.copy()

    def a_rezero(s):
        s.rezero()
        return s

    def spec_rezero(model):
        pv = model.placed_vertices()
        c = (pv.min(axis=0) + pv.max(axis=0)) / 2 if len(pv) else np.zeros(3)
        if np.allclose(c, 0.0):
            return model.copy()
        # documented: a new, offset base frame above the old one
        m = model.copy()
        new_base = str(m.base) + "_I"
        m.nodes[m.base] = (new_base, H(t=-c), None)
        m.base = new_base
        return m

    def spec_apply(model):
        # documented: the transform is applied at the children of the base frame
        m = model.copy()
        for n, (p, L, g) in list(m.nodes.items()):
            if p == m.base:
                m.nodes[n] = (p, M_APPLY @ L, g)
        return m

    def a_apply(s):
        s.apply_transform(M_APPLY.copy())
        return s

    def a_units(s):
        s.units = "in"
        return s.convert_units("mm")

    def a_add_self(s):
        return s + s.copy()

    def spec_add_self(model):
        m = model.copy()
        for n, (p, L, g) in list(model.nodes.items()):
            m.nodes[n + "__2"] = ((p + "__2") if p != model.base else model.base, L.copy(), g)
        return m

    def a_edge(s):
        # change an inner edge
        s.graph.update(frame_to="a", frame_from=s.graph.transforms.parents["a"], matrix=EDGE["RxT"].copy(), geometry=s.graph["a"][1])
        return s

    def spec_edge(model):
        m = model.copy()
        p, L, g = m.nodes["a"]
        m.nodes["a"] = (p, EDGE["RxT"].copy(), g)
        return m

    NUDGE = np.array([0.05, -0.03, 0.0])

    def a_nudge(s):
        # a small edit of an existing edge (same geometry): it must take effect every time
        p = s.graph.transforms.parents["a"]
        M = np.array(s.graph.transforms.edge_data[(p, "a")]["matrix"], dtype=float).copy()
        M[:3, 3] += NUDGE
        s.graph.update(frame_to="a", frame_from=p, matrix=M, geometry=s.graph["a"][1])
        return s

    def spec_nudge(model):
        m = model.copy()
        p, L, g = m.nodes["a"]
        L = L.copy()
        L[:3, 3] += NUDGE
        m.nodes["a"] = (p, L, g)
        return m

    def a_geom_edit(s):
        s.geometry["tet"].apply_transform(H(np.eye(3) * 0.5, [1, 0, 0]))
        return s

    def spec_geom_edit(model):
        m = model.copy()
        m.geoms["tet"]["V"] = tp(H(np.eye(3) * 0.5, [1, 0, 0]), m.geoms["tet"]["V"])
        return m

    def a_geom_inplace(s):
        s.geometry["tet"].vertices[0] += [0.0, 0.0, 5.0]
        return s

    def spec_geom_inplace(model):
        m = model.copy()
        m.geoms["tet"]["V"][0] += [0.0, 0.0, 5.0]
        return m

    def a_add_geom(s):
        import trimesh

        s.add_geometry(trimesh.Trimesh(_TET_V.copy() * 0.5, _TET_F.copy(), process=False), node_name="new", geom_name="newg", parent_node_name="a", transform=EDGE["T"].copy())
        return s

    def spec_add_geom(model):
        m = model.copy()
        m.geoms["newg"] = {"kind": "mesh", "V": _TET_V.copy() * 0.5, "F": _TET_F.copy()}
        m.nodes["new"] = ("a", EDGE["T"].copy(), "newg")
        return m

    def a_del_geom(s):
        s.delete_geometry("tet")
        return s

    def spec_del_geom(model):
        m = model.copy()
        m.geoms.pop("tet", None)
        return m

    def _leaf(model):
        """The last node nobody hangs below."""
        parents = {p for p, _, _ in model.nodes.values()}
        leaves = sorted((n for n in model.nodes if n not in parents), key=str)
        return leaves[-1] if leaves else None

    def a_remove_leaf(s):
        # the graph-level way of taking one instance out of the scene
        parents = {s.graph.transforms.parents.get(n) for n in s.graph.nodes}
        leaves = sorted((n for n in s.graph.nodes if n not in parents and n != s.graph.base_frame), key=str)
        if not leaves:
            raise KeyError("no leaf")
        s.graph.transforms.remove_node(leaves[-1])
        return s

    def spec_remove_leaf(model):
        m = model.copy()
        n = _leaf(m)
        if n is None:
            raise KeyError("no leaf")
        del m.nodes[n]
        return m

    def a_subscene(s):
        return s.subscene("a")

    def spec_subscene(model):
        # descendants of 'a' (not 'a' itself), expressed in the frame of 'a'
        m = Model()
        m.base = "a"
        m.geoms = model.copy().geoms

        def is_desc(n):
            p = model.nodes[n][0]
            while p in model.nodes:
                if p == "a":
                    return True
                p = model.nodes[p][0]
            return p == "a"

        m.nodes = {n: (p, L.copy(), g) for n, (p, L, g) in model.nodes.items() if n != "a" and is_desc(n)}
        return m

    def a_append3(s):
        from trimesh.scene.scene import append_scenes

        b = s.copy()
        b.apply_transform(H(t=[10, 0, 0]))
        c = s.copy()
        c.apply_transform(H(t=[0, 20, 0]))
        return append_scenes([s, b, c], common=[s.graph.base_frame], base_frame=s.graph.base_frame)

    def spec_append3(model):
        m = model.copy()
        for tag, off in (("__b", [10, 0, 0]), ("__c", [0, 20, 0])):
            for n, (p, L, g) in list(model.nodes.items()):
                if p == model.base:
                    m.nodes[n + tag] = (model.base, H(t=off) @ L, g)
                else:
                    m.nodes[n + tag] = (p + tag, L.copy(), g)
        return m

    acts = [
        ("append_scenes([scene, moved copy, moved copy])", a_append3, spec_append3, True),
        ("copy", a_copy, lambda m: m.copy(), True),
        ("scaled(2)", lambda s: s.scaled(2.0), lambda m: mscale(m, [2, 2, 2]), True),
        ("scaled((2,1,1))", lambda s: s.scaled([2.0, 1.0, 1.0]), lambda m: mscale(m, [2, 1, 1]), True),
        ("scaled((1,2,3))", lambda s: s.scaled([1.0, 2.0, 3.0]), lambda m: mscale(m, [1, 2, 3]), True),
        ("rezero", a_rezero, spec_rezero, False),
        ("apply_transform", a_apply, spec_apply, False),
        ("convert_units(in->mm)", a_units, lambda m: mscale(m, [25.4] * 3), True),
        ("scene + copy", a_add_self, spec_add_self, True),
        ("graph.update(inner edge)", a_edge, spec_edge, False),
        ("graph.update(small nudge of an existing edge)", a_nudge, spec_nudge, False),
        ("geometry.apply_transform (shared geometry)", a_geom_edit, spec_geom_edit, False),
        ("geometry vertices edited in place", a_geom_inplace, spec_geom_inplace, False),
        ("add_geometry", a_add_geom, spec_add_geom, False),
        ("delete_geometry", a_del_geom, spec_del_geom, False),
        ("graph.transforms.remove_node(leaf)", a_remove_leaf, spec_remove_leaf, False),
        ("subscene", a_subscene, spec_subscene, True),
    ]
    return acts


def run_history(t, sname, model, hist, preread, case):
    """hist = list of action indices; check after every action."""
    acts = actions()
    s = build_scene(model)
    m = model
    tag = "after reads" if preread else "no reads"
    for step, ai in enumerate(hist):
        name, real, spec, returns_new = acts[ai]
        if preread:
            read_everything(s)
        before = model_snapshot(s) if returns_new else None
        try:
            s2 = real(s)
        except Exception as e:
            t.violation(f"{name} raises {type(e).__name__} [{tag}]", case, {"exc": repr(e)[:300], "step": step})
            return
        try:
            m = spec(m)
        except KeyError:
            return  # action not applicable to this scene (e.g. no node 'a')
        if returns_new:
            after = model_snapshot(s)
            if not snapshots_equal(before, after):
                t.violation(f"{name} modifies the source scene [{tag}]", case, {"step": step})
                return
        s = s2
        prefix = f"{name} [{tag}]" if step == 0 else f"{acts[hist[0]][0]} then {name} [{tag}]"
        t.evaluations += 1
        if not compare_scene(t, s, m, prefix, case):
            return
        if any(k.startswith(prefix) for k, _, _ in t.violations):
            return


def model_snapshot(s):
    geo = {k: (np.array(g.vertices, copy=True), np.array(g.faces, copy=True) if hasattr(g, "faces") else None) for k, g in s.geometry.items()}
    flat = {}
    for n in s.graph.nodes_geometry:
        M, g = s.graph[n]
        flat[n] = (np.array(M, copy=True), g)
    return geo, flat, s.graph.base_frame


def snapshots_equal(a, b):
    if a[2] != b[2] or a[0].keys() != b[0].keys() or a[1].keys() != b[1].keys():
        return False
    for k in a[0]:
        if a[0][k][0].shape != b[0][k][0].shape or not np.array_equal(a[0][k][0], b[0][k][0]):
            return False
        if a[0][k][1] is not None and not np.array_equal(a[0][k][1], b[0][k][1]):
            return False
    for k in a[1]:
        if a[1][k][1] != b[1][k][1] or not np.allclose(a[1][k][0], b[1][k][0], atol=1e-12):
            return False
    return True


def _w(task):
    sname, tier, depth = task
    t = harness.Tally()
    model = scene_family(tier)[sname]
    nact = len(actions())
    # the scene as built
    s = build_scene(model)
    t.evaluations += 1
    compare_scene(t, s, model, "as built", {"scene": sname, "history": [], "preread": False})
    for pre in (False, True):
        for a in range(nact):
            case = {"scene": sname, "history": [a], "preread": pre, "names": [actions()[a][0]]}
            t.nontrivial_count += 1
            run_history(t, sname, model, [a], pre, case)
            if depth >= 2:
                renaming = actions()[a][0].startswith(("append_scenes", "scene + copy", "subscene", "scaled", "convert_units", "delete_geometry", "add_geometry"))
                for b in range(nact):
                    if renaming and not actions()[b][0].startswith(("copy", "scaled", "rezero", "apply_transform", "convert_units")):
                        # the first action renames geometry / rebuilds the graph: only second actions whose
                        # specification does not mention node or geometry names are defined on the model
                        continue
                    case = {"scene": sname, "history": [a, b], "preread": pre, "names": [actions()[a][0], actions()[b][0]]}
                    t.nontrivial_count += 1
                    run_history(t, sname, model, [a, b], pre, case)
    t.sample({"scene": sname, "history": ["scaled((1,2,3))"], "preread": True}, limit=1)
    return t


def _w_faceless(_):
    """A member that has vertices but no faces, in every position among the meshes: baking the scene into one
    mesh must give exactly the placed triangles of the others."""
    import trimesh

    t = harness.Tally()
    bv, bf = box_arrays()
    parts = {
        "tet": (trimesh.Trimesh(_TET_V.copy(), _TET_F.copy(), process=False), EDGE["T"]),
        "box": (trimesh.Trimesh(bv.copy(), bf.copy(), process=False), EDGE["RxT"]),
        "lone": (trimesh.Trimesh(vertices=_TET_V[:2].copy() + 30.0, faces=np.zeros((0, 3), dtype=np.int64), process=False), EDGE["Rz"]),
    }
    want = np.vstack([tp(parts[k][1], np.asarray(parts[k][0].vertices))[np.asarray(parts[k][0].faces)] for k in ("tet", "box")])
    for order in itertools.permutations(("tet", "box", "lone")):
        case = {"family": "faceless", "order": list(order)}
        t.evaluations += 1
        t.nontrivial_count += 1
        try:
            s = trimesh.Scene()
            for k in order:
                s.add_geometry(parts[k][0].copy(), node_name="n_" + k, geom_name=k, transform=parts[k][1].copy())
            got = np.asarray(s.to_mesh().triangles)
            if canon_tris(got) != canon_tris(want):
                t.violation("to_mesh() of a scene with a member that has vertices but no faces differs from the placed triangles", case, {"n_got": len(got), "n_want": len(want)})
                continue
            if canon_tris(np.asarray(s.triangles)) != canon_tris(want):
                t.violation("triangles of a scene with a member that has vertices but no faces differ from the placed triangles", case, {})
        except Exception as e:
            t.violation(f"scene with a member that has vertices but no faces raises {type(e).__name__}", case, {"exc": repr(e)[:200]})
    return t


def replay(case):
    t = harness.Tally()
    if case.get("family") == "faceless":
        return [(k, d) for k, c, d in _w_faceless(None).violations if c.get("order") == case.get("order")]
    fam = scene_family("thorough")
    model = fam[case["scene"]]
    if not case["history"]:
        compare_scene(t, build_scene(model), model, "as built", case)
    else:
        run_history(t, case["scene"], model, list(case["history"]), case["preread"], case)
    return [(k, d) for k, c, d in t.violations]


def main(run):
    tier = run.tier
    fam = scene_family(tier)
    depth = 2
    tasks = [(n, tier, depth) for n in fam]
    run.log(f"{len(tasks)} scenes, history depth {depth}")
    res = harness.pmap(_w, tasks)
    run.merge(res)
    run.tally.merge(_w_faceless(None))
    n = run.tally.evaluations
    cov = {
        "states": n + len(tasks),
        "transitions": n,
        "traces_validated_against_impl": n,
        "exhaustive": True,
        "scenes": len(tasks),
        "actions": [a[0] for a in actions()],
        "rule": "scenes = chain / instanced templates x edge transforms from {I, T, Rz, Rx.T, uniform scale 2}^2 plus a mixed-kind scene with an empty frame and an unreferenced geometry; histories = every action (every ordered pair in thorough), with and without reading every quantity first; after every action all quantities are compared with the placement list",
    }
    return run.finish(cov, assumptions=["a placed copy of a geometry under a similarity node transform counts with its scaled area / volume", "subscene(n) = strict descendants of n, in the frame of n", "convex hull: vertices are placed vertices and every placed vertex is inside"])
