"""
C13 - voxel encodings are interchangeable and run-length codecs are lossless.

Engine E2 (+ view compositions of depth 2 = E1 depth 2 over lazy views):
 (a) run-length codecs: every boolean sequence up to a length, every {0,1,2} sequence up to
     a length, run structures around the count dtype maxima, through every codec function,
     against Python lists;
 (b) encodings: every boolean array of a few small shapes as Dense / Sparse / RunLength /
     BinaryRunLength (flat -> reshape), every lazy view (flip over every axis subset, every
     transpose, flat, reshape to every factorisation) and compositions of two views; every
     read of the Encoding API against numpy on the dense array;
 (c) VoxelGrid: points <-> indices inverse, is_filled, filled_count, volume, strip, copy,
     binvox export -> load.
"""

import itertools

import numpy as np

from mc.core import harness

LEVEL = "exploration"


def rl():
    from trimesh.voxel import runlength

    return runlength


def enc():
    from trimesh.voxel import encoding

    return encoding


# ---------------------------------------------------------------------------
# (a) codecs
# ---------------------------------------------------------------------------


def py_rle(seq):
    out = []
    for v in seq:
        if out and out[-1][0] == v:
            out[-1][1] += 1
        else:
            out.append([v, 1])
    return out


def decode_rle(data):
    data = list(np.asarray(data).tolist())
    out = []
    for v, n in zip(data[0::2], data[1::2]):
        out += [v] * int(n)
    return out


def decode_brle(data):
    out = []
    val = False
    for n in np.asarray(data).tolist():
        out += [val] * int(n)
        val = not val
    return out


def exc_class(e):
    return type(e).__name__


def check_codec_seq(t, seq, is_bool, case, dtypes):
    R = rl()
    n = len(seq)
    arr = np.array(seq, dtype=bool if is_bool else np.int64)
    fam = "bool" if is_bool else "int"

    def call(name, f, want, conv=lambda x: np.asarray(x).tolist(), extra=""):
        t.evaluations += 1
        try:
            got = conv(f())
        except Exception as e:
            t.violation(f"runlength.{name}: raises {exc_class(e)} [{fam} sequence{extra}]", dict(case, fn=name), {"exc": repr(e)[:200]})
            return None
        if got != want:
            t.violation(f"runlength.{name}: result differs from the list oracle [{fam} sequence{extra}]", dict(case, fn=name), {"got": got, "want": want})
        return got

    want = [bool(v) for v in seq] if is_bool else [int(v) for v in seq]
    for dt in dtypes:
        ex = f", count dtype {np.dtype(dt).name}"
        # dense -> rle -> dense
        try:
            rle = R.dense_to_rle(arr, dtype=dt)
            call("dense_to_rle->rle_to_dense", lambda: R.rle_to_dense(rle), [int(v) for v in seq], extra=ex)
            if len(rle) and np.asarray(rle)[1::2].max() > np.iinfo(dt).max:
                t.violation(f"runlength.dense_to_rle: a count exceeds the count dtype [{fam} sequence{ex}]", case, {"rle": rle})
        except Exception as e:
            t.violation(f"runlength.dense_to_rle: raises {exc_class(e)} [{fam} sequence{ex}]", case, {"exc": repr(e)[:200]})
            rle = None
        if is_bool:
            try:
                brle = R.dense_to_brle(arr, dtype=dt)
                call("dense_to_brle->brle_to_dense", lambda: R.brle_to_dense(brle), want, extra=ex)
                call("brle_length", lambda: int(R.brle_length(brle)), n, conv=lambda x: x, extra=ex)
            except Exception as e:
                t.violation(f"runlength.dense_to_brle: raises {exc_class(e)} [{fam} sequence{ex}]", case, {"exc": repr(e)[:200]})
    if n == 0:
        return
    rle = R.dense_to_rle(arr)
    call("rle_length", lambda: int(R.rle_length(rle)), n, conv=lambda x: x)
    call("rle_reverse", lambda: decode_rle(R.rle_reverse(rle)), [int(v) for v in seq][::-1], conv=lambda x: x)
    call("rle_reverse(list input)", lambda: decode_rle(R.rle_reverse(list(np.asarray(rle).tolist()))), [int(v) for v in seq][::-1], conv=lambda x: x)
    call("rle_to_rle", lambda: decode_rle(R.rle_to_rle(rle)), [int(v) for v in seq], conv=lambda x: x)
    # merge: an unmerged encoding (each element its own run, plus zero-length runs)
    unmerged = []
    for v in seq:
        unmerged += [int(v), 1]
    unmerged = unmerged[:2] + [7, 0] + unmerged[2:]
    call("rle_to_rle(unmerged input)", lambda: np.asarray(R.rle_to_rle(np.array(unmerged))).tolist(), [x for p in py_rle([int(v) for v in seq]) for x in p], conv=lambda x: x)
    sp_want_idx = [i for i, v in enumerate(seq) if v]
    sp_want_val = [int(seq[i]) for i in sp_want_idx]
    call("rle_to_sparse", lambda: [np.asarray(x).tolist() for x in R.rle_to_sparse(rle)], [sp_want_idx, sp_want_val], conv=lambda x: x)
    # strip
    nz = [i for i, v in enumerate(seq) if v]
    if nz:
        lo, hi = nz[0], n - 1 - nz[-1]

        def strip():
            d, pad = R.rle_strip(rle)
            return [decode_rle(d), [int(pad[0]), int(pad[1])]]

        call("rle_strip", strip, [[int(v) for v in seq][lo : n - hi], [lo, hi]], conv=lambda x: x)
    # gather / mask
    idx_sets = [list(i) for r in (1, 2, 3) for i in itertools.product(range(n), repeat=r)] if n <= 4 else [[0], [n - 1], [0, n - 1], [n - 1, 0], [1, 1, 0]]
    for idx in idx_sets:
        for form in ("array", "list"):
            ii = np.array(idx) if form == "array" else list(idx)
            ordered = "sorted" if idx == sorted(idx) else "unsorted"
            c2 = dict(case, indices=idx, form=form)
            t.evaluations += 1
            try:
                got = np.asarray(R.rle_gather_1d(rle, ii)).tolist()
                if got != [int(seq[i]) for i in idx]:
                    t.violation(f"runlength.rle_gather_1d: wrong values [{ordered} indices, {form}]", c2, {"got": got})
            except Exception as e:
                t.violation(f"runlength.rle_gather_1d: raises {exc_class(e)} [{ordered} indices, {form}]", c2, {"exc": repr(e)[:200]})
            if is_bool:
                brle = R.dense_to_brle(arr)
                try:
                    got = np.asarray(R.brle_gather_1d(brle, ii)).tolist()
                    if got != [bool(seq[i]) for i in idx]:
                        t.violation(f"runlength.brle_gather_1d: wrong values [{ordered} indices, {form}]", c2, {"got": got})
                except Exception as e:
                    t.violation(f"runlength.brle_gather_1d: raises {exc_class(e)} [{ordered} indices, {form}]", c2, {"exc": repr(e)[:200]})
    masks = list(itertools.product((False, True), repeat=n)) if n <= 5 else [tuple(i % 2 == 0 for i in range(n)), (True,) * n, (False,) * n]
    for mk in masks:
        c2 = dict(case, mask=list(mk))
        t.evaluations += 1
        try:
            got = [int(x) for x in R.rle_mask(rle, np.array(mk))]
            if got != [int(v) for v, b in zip(seq, mk) if b]:
                t.violation("runlength.rle_mask: wrong values", c2, {"got": got})
        except Exception as e:
            t.violation(f"runlength.rle_mask: raises {exc_class(e)}", c2, {"exc": repr(e)[:200]})
        if is_bool:
            try:
                got = [bool(x) for x in R.brle_mask(R.dense_to_brle(arr), np.array(mk))]
                if got != [bool(v) for v, b in zip(seq, mk) if b]:
                    t.violation("runlength.brle_mask: wrong values", c2, {"got": got})
            except Exception as e:
                t.violation(f"runlength.brle_mask: raises {exc_class(e)}", c2, {"exc": repr(e)[:200]})
    if is_bool:
        brle = R.dense_to_brle(arr)
        call("brle_reverse", lambda: decode_brle(R.brle_reverse(brle)), want[::-1], conv=lambda x: x)
        call("brle_logical_not", lambda: decode_brle(R.brle_logical_not(brle)), [not v for v in want], conv=lambda x: x)
        call("brle_to_rle", lambda: decode_rle(R.brle_to_rle(brle)), [int(v) for v in want], conv=lambda x: x)
        call("rle_to_brle", lambda: decode_brle(R.rle_to_brle(rle)), want, conv=lambda x: x)
        call("brle_to_brle", lambda: decode_brle(R.brle_to_brle(brle)), want, conv=lambda x: x)
        call("brle_to_sparse", lambda: np.asarray(R.brle_to_sparse(brle)).tolist(), sp_want_idx, conv=lambda x: x)
        if nz:

            def bstrip():
                d, pad = R.brle_strip(brle)
                return [decode_brle(d), [int(pad[0]), int(pad[1])]]

            call("brle_strip", bstrip, [want[nz[0] : nz[-1] + 1], [nz[0], n - 1 - nz[-1]]], conv=lambda x: x)


def _w_codec_bool(task):
    n, sl, nsl = task
    t = harness.Tally()
    for k, seq in enumerate(itertools.product((False, True), repeat=n)):
        if k % nsl != sl:
            continue
        t.nontrivial_count += 1
        check_codec_seq(t, list(seq), True, {"family": "codec", "kind": "bool", "seq": [int(v) for v in seq]}, [np.int64, np.uint8])
    return t


def _w_codec_int(task):
    n, sl, nsl = task
    t = harness.Tally()
    for k, seq in enumerate(itertools.product((0, 1, 2), repeat=n)):
        if k % nsl != sl:
            continue
        t.nontrivial_count += 1
        check_codec_seq(t, list(seq), False, {"family": "codec", "kind": "int", "seq": list(seq)}, [np.int64])
    return t


RUN_LENGTHS = [1, 2, 126, 127, 128, 254, 255, 256, 257, 510, 511]


def _w_runs(task):
    """Run structures: <= 3 runs with lengths around the count dtype maxima."""
    dt, first_val = task
    R = rl()
    t = harness.Tally()
    dtype = np.dtype(dt)
    for nruns in (1, 2, 3):
        for lens in itertools.product(RUN_LENGTHS, repeat=nruns):
            seq = []
            v = first_val
            for ln in lens:
                seq += [v] * ln
                v = not v
            arr = np.array(seq, dtype=bool)
            case = {"family": "runs", "dtype": dtype.name, "first": bool(first_val), "lengths": list(lens)}
            over = any(ln > np.iinfo(dtype).max for ln in lens)
            cls = f"count dtype {dtype.name}, {'a run longer than the dtype maximum' if over else 'runs within the dtype range'}"
            t.evaluations += 1
            t.nontrivial_count += 1
            for name, encf, decf in (("brle", R.dense_to_brle, R.brle_to_dense), ("rle", R.dense_to_rle, R.rle_to_dense)):
                try:
                    code = encf(arr, dtype=dtype)
                    if np.asarray(code).dtype != dtype and name == "brle":
                        t.violation(f"runlength.dense_to_{name}: result is not of the requested count dtype [{cls}]", case, {"dtype": str(np.asarray(code).dtype)})
                    back = np.asarray(decf(code)).astype(bool).tolist()
                    if back != seq:
                        t.violation(f"runlength.dense_to_{name} -> {name}_to_dense is not lossless [{cls}]", case, {"code": np.asarray(code).tolist()[:12]})
                except Exception as e:
                    t.violation(f"runlength.dense_to_{name} raises {exc_class(e)} [{cls}]", case, {"exc": repr(e)[:200]})
            # re-encode an int64 code into the narrow dtype
            try:
                wide = R.dense_to_brle(arr, dtype=np.int64)
                narrow = R.brle_to_brle(wide, dtype=dtype)
                if decode_brle(narrow) != seq or np.asarray(narrow).max() > np.iinfo(dtype).max:
                    t.violation(f"runlength.brle_to_brle(dtype) is not lossless [{cls}]", case, {})
                wr = R.dense_to_rle(arr, dtype=np.int64)
                nr = R.rle_to_rle(wr, dtype=dtype)
                if [bool(x) for x in decode_rle(nr)] != seq:
                    t.violation(f"runlength.rle_to_rle(dtype) is not lossless [{cls}]", case, {})
                b2 = R.rle_to_brle(wr, dtype=dtype)
                if decode_brle(b2) != seq:
                    t.violation(f"runlength.rle_to_brle(dtype) is not lossless [{cls}]", case, {})
            except Exception as e:
                t.violation(f"runlength re-encoding raises {exc_class(e)} [{cls}]", case, {"exc": repr(e)[:200]})
    return t


# ---------------------------------------------------------------------------
# (a2) codecs on codes that are not in canonical form (zero-length runs, unmerged runs)
# ---------------------------------------------------------------------------

SPLIT_LENGTHS = [0, 1, 2, 254, 255, 256, 510, 511]


def check_noncanon(t, kind, code, case):
    """One run-length code word as the library documents them (zero counts and repeated values
    are legal: that is how long runs are stored in narrow count dtypes) through every codec function."""
    R = rl()
    c = np.array(code, dtype=np.int64)
    d = decode_brle(code) if kind == "brle" else decode_rle(code)
    n = len(d)

    def call(name, f, want, cls="zero-length or unmerged runs in the code"):
        t.evaluations += 1
        try:
            got = f()
        except Exception as e:
            t.violation(f"runlength.{name}: raises {exc_class(e)} [{cls}]", dict(case, fn=name), {"exc": repr(e)[:200]})
            return
        if got != want:
            t.violation(f"runlength.{name}: result differs from the list oracle [{cls}]", dict(case, fn=name), {"got": got, "want": want})

    L = lambda x: np.asarray(x).tolist()
    nz = [i for i, x in enumerate(d) if x]
    if kind == "brle":
        call("brle_to_dense", lambda: np.asarray(R.brle_to_dense(c)).astype(bool).tolist(), d)
        call("brle_length", lambda: int(R.brle_length(c)), n)
        call("brle_reverse", lambda: decode_brle(L(R.brle_reverse(c))), d[::-1])
        call("brle_logical_not", lambda: decode_brle(L(R.brle_logical_not(c))), [not x for x in d])
        call("brle_to_rle", lambda: decode_rle(L(R.brle_to_rle(c))), [int(x) for x in d])
        call("brle_to_brle", lambda: decode_brle(L(R.brle_to_brle(c))), d)
        call("brle_to_brle(uint8)", lambda: decode_brle(L(R.brle_to_brle(c, dtype=np.uint8))), d)
        call("merge_brle_lengths", lambda: decode_brle(list(R.merge_brle_lengths(c))), d)
        call("brle_to_sparse", lambda: L(R.brle_to_sparse(c)), nz)
        if nz:

            def bs():
                s, p = R.brle_strip(c)
                return [decode_brle(L(s)), [int(p[0]), int(p[1])]]

            call("brle_strip", bs, [d[nz[0] : nz[-1] + 1], [nz[0], n - 1 - nz[-1]]])
    else:
        call("rle_to_dense", lambda: L(R.rle_to_dense(c)), d)
        call("rle_length", lambda: int(R.rle_length(c)), n)
        call("rle_reverse", lambda: decode_rle(L(R.rle_reverse(c))), d[::-1])
        call("rle_to_rle", lambda: decode_rle(L(R.rle_to_rle(c))), d)
        call("rle_to_rle(uint8)", lambda: decode_rle(L(R.rle_to_rle(c, dtype=np.uint8))), d)
        call("merge_rle_lengths", lambda: decode_rle([int(x) for pr in zip(*R.merge_rle_lengths(c[0::2], c[1::2])) for x in pr]), d)
        if all(v in (0, 1) for v in code[0::2]):
            call("rle_to_brle", lambda: decode_brle(list(R.rle_to_brle(c))), [bool(x) for x in d])
            call("rle_to_brle(uint8)", lambda: decode_brle(L(R.rle_to_brle(c, dtype=np.uint8))), [bool(x) for x in d])

        def sp():
            i, v = R.rle_to_sparse(c)
            return [L(i), L(v)]

        call("rle_to_sparse", sp, [nz, [x for x in d if x]])
        if nz:

            def rs():
                s, p = R.rle_strip(c)
                return [decode_rle(L(s)), [int(p[0]), int(p[1])]]

            call("rle_strip", rs, [d[nz[0] : nz[-1] + 1], [nz[0], n - 1 - nz[-1]]])
    if 0 < n <= 5:
        conv = (lambda x: [bool(v) for v in x]) if kind == "brle" else (lambda x: [int(v) for v in x])
        gather = R.brle_gather_1d if kind == "brle" else R.rle_gather_1d
        sgather = R.sorted_brle_gather_1d if kind == "brle" else R.sorted_rle_gather_1d
        mask = R.brle_mask if kind == "brle" else R.rle_mask
        for r in (1, 2, 3):
            for idx in itertools.combinations_with_replacement(range(n), r):
                want = [d[i] for i in idx]
                call(f"{kind}_gather_1d", lambda: conv(gather(c, np.array(idx))), want)
                call(f"sorted_{kind}_gather_1d", lambda: conv(sgather(c, np.array(idx))), want)
                call(f"sorted_{kind}_gather_1d", lambda: conv(sgather(c, list(idx))), want)
        for mk in itertools.product((False, True), repeat=n):
            call(f"{kind}_mask", lambda: conv(mask(c, np.array(mk))), [x for x, b in zip(d, mk) if b])


def check_split(t, kind, lens, dt, case):
    """split_long_* into a narrow count dtype and merge_* back: the sequence never changes."""
    R = rl()
    dtype = np.dtype(dt)
    mx = np.iinfo(dtype).max
    cls = f"count dtype {dtype.name}, {'a run longer than the dtype maximum' if any(x > mx for x in lens) else 'runs within the dtype range'}"
    t.evaluations += 1
    try:
        if kind == "brle":
            want = decode_brle(lens)
            out = np.asarray(R.split_long_brle_lengths(np.array(lens, dtype=np.int64), dtype=dtype))
            if out.dtype != dtype:
                t.violation(f"runlength.split_long_brle_lengths: result is not of the requested count dtype [{cls}]", case, {"dtype": str(out.dtype)})
            if decode_brle(out.tolist()) != want:
                t.violation(f"runlength.split_long_brle_lengths changes the sequence [{cls}]", case, {"out": out.tolist()[:12]})
            back = list(R.merge_brle_lengths(out.astype(np.int64)))
            if decode_brle(back) != want:
                t.violation(f"runlength.merge_brle_lengths(split_long_brle_lengths) changes the sequence [{cls}]", case, {"back": [int(x) for x in back][:12]})
            if any(int(x) == 0 for x in back[1:-1]):
                t.violation(f"runlength.merge_brle_lengths leaves an interior zero-length run [{cls}]", case, {"back": [int(x) for x in back][:12]})
        else:
            vals = [(i % 2) + 1 if i % 3 else 0 for i in range(len(lens))]
            want = [v for v, ln in zip(vals, lens) for _ in range(ln)]
            ov, ol = R.split_long_rle_lengths(np.array(vals), np.array(lens, dtype=np.int64), dtype=dtype)
            ov, ol = np.asarray(ov), np.asarray(ol)
            if ol.dtype != dtype:
                t.violation(f"runlength.split_long_rle_lengths: counts are not of the requested count dtype [{cls}]", case, {"dtype": str(ol.dtype)})
            got = [int(v) for v, ln in zip(ov.tolist(), ol.tolist()) for _ in range(int(ln))]
            if got != want:
                t.violation(f"runlength.split_long_rle_lengths changes the sequence [{cls}]", case, {"values": ov.tolist()[:8], "lengths": ol.tolist()[:8]})
            mv, ml = R.merge_rle_lengths(ov, ol.astype(np.int64))
            got = [int(v) for v, ln in zip(mv, ml) for _ in range(int(ln))]
            if got != want:
                t.violation(f"runlength.merge_rle_lengths(split_long_rle_lengths) changes the sequence [{cls}]", case, {})
    except Exception as e:
        t.violation(f"runlength.split_long_{kind}_lengths / merge raises {exc_class(e)} [{cls}]", case, {"exc": repr(e)[:200]})


def noncanon_codes(kind, tier):
    if kind == "brle":
        top = 5 if tier == "quick" else 6
        for ln in range(1, top + 1):
            yield from itertools.product((0, 1, 2, 3), repeat=ln)
    else:
        top = 3 if tier == "quick" else 4
        for pairs in range(1, top + 1):
            yield from itertools.product(*([(0, 1, 2), (0, 1, 2)] * pairs))


def _w_noncanon(task):
    kind, tier, sl, nsl = task
    t = harness.Tally()
    for k, code in enumerate(noncanon_codes(kind, tier)):
        if k % nsl != sl:
            continue
        t.nontrivial_count += 1
        check_noncanon(t, kind, list(code), {"family": "noncanon", "kind": kind, "code": list(code)})
    return t


def _w_split(task):
    kind, dt = task
    t = harness.Tally()
    for ln in (1, 2, 3, 4):
        for lens in itertools.product(SPLIT_LENGTHS, repeat=ln):
            if ln == 4 and (lens[0] not in (0, 255) or lens[3] not in (0, 256)):
                continue
            t.nontrivial_count += 1
            check_split(t, kind, list(lens), dt, {"family": "split", "kind": kind, "dtype": dt, "lengths": list(lens)})
    return t


# ---------------------------------------------------------------------------
# (b) encodings
# ---------------------------------------------------------------------------


def base_encodings(D):
    E = enc()
    out = {}
    out["Dense"] = lambda: E.DenseEncoding(D.copy())
    out["Sparse"] = lambda: E.SparseEncoding.from_dense(D.copy())
    out["RunLength"] = lambda: E.RunLengthEncoding.from_dense(D.reshape(-1).astype(np.int64)).reshape(D.shape)
    out["BinaryRunLength"] = lambda: E.BinaryRunLengthEncoding.from_dense(D.reshape(-1)).reshape(D.shape)
    # counts stored as uint8: what binvox files hold
    out["RunLength(uint8 counts)"] = lambda: E.RunLengthEncoding.from_dense(D.reshape(-1).astype(np.int64), encoding_dtype=np.uint8).reshape(D.shape)
    out["BinaryRunLength(uint8 counts)"] = lambda: E.BinaryRunLengthEncoding.from_dense(D.reshape(-1), encoding_dtype=np.uint8).reshape(D.shape)
    return out


def views_for(shape):
    nd = len(shape)
    v = []
    for r in range(1, nd + 1):
        for ax in itertools.combinations(range(nd), r):
            v.append(("flip" + str(list(ax)), lambda e, ax=ax: e.flip(ax), lambda a, ax=ax: np.flip(a, ax)))
    for perm in itertools.permutations(range(nd)):
        if perm != tuple(range(nd)):
            v.append(("transpose" + str(list(perm)), lambda e, p=perm: e.transpose(p), lambda a, p=perm: a.transpose(p)))
    v.append(("flat", lambda e: e.flat, lambda a: a.reshape(-1)))
    size = int(np.prod(shape))
    facts = set()
    for a in range(1, size + 1):
        if size % a == 0:
            facts.add((a, size // a))
    for f in sorted(facts):
        if f != tuple(shape):
            v.append(("reshape" + str(list(f)), lambda e, f=f: e.reshape(f), lambda a, f=f: a.reshape(f)))
            # the same reshape with one dimension left to be inferred
            v.append(("reshape" + str([f[0], -1]), lambda e, f=f: e.reshape((f[0], -1)), lambda a, f=f: a.reshape(f)))
    return v


def view_class(name):
    return name.split("[")[0]


def check_reads(t, e, A, label, case, inner_failed=frozenset()):
    """Every read of the Encoding API on `e` against numpy on `A`.

    Returns the set of reader names that failed.  A failure is *reported* only if the same
    reader (and `dense`) works on the encoding this one wraps: lazy views delegate each read
    to the same read of the wrapped encoding, so one defect gives one key, named after the
    outermost class that breaks a read its wrapped encoding answers correctly.
    """
    A = np.asarray(A)
    failed = set()
    inner = getattr(e, "_data", None)
    # (a class test, not hasattr(inner, "dense"): that would evaluate the property and let its exceptions through)
    label = type(e).__name__ + ("(" + type(inner).__name__ + ")" if any(c.__name__ == "Encoding" for c in type(inner).__mro__) else "")

    def report(key, c, d, name):
        failed.add(name)
        if name == "get_value" and hasattr(e, "_to_base_indices"):
            # one defect: LazyIndexMap.get_value subscripts the wrapped encoding
            key = "LazyIndexMap.get_value (any lazy view): " + key.split(": ", 1)[1].split(" ")[0] + " an exception"
        dep = {name, "dense"} | ({"sparse_indices/values"} if name in ("sparse_components", "is_empty", "stripped") else set())
        if dep & set(inner_failed):
            t.stats["failures_inherited_from_wrapped_encoding"] += 1
            return
        t.violation(key, c, d)

    def rd(name, f, want, cmp=None):
        t.evaluations += 1
        try:
            got = f()
        except Exception as ex:
            report(f"{label}.{name}: raises {exc_class(ex)}", dict(case, read=name), {"exc": repr(ex)[:200], "dense": A.astype(int)}, name)
            return
        try:
            ok = cmp(got, want) if cmp else (np.shape(got) == np.shape(want) and bool((np.asarray(got) == np.asarray(want)).all()))
        except Exception:
            ok = False
        if not ok:
            report(f"{label}.{name}: differs from the dense numpy array", dict(case, read=name), {"got": got if not hasattr(got, "dense") else "encoding", "want": want, "dense": A.astype(int)}, name)

    rd("dense", lambda: np.asarray(e.dense).astype(bool), A.astype(bool))
    rd("shape", lambda: tuple(int(x) for x in e.shape), tuple(A.shape), cmp=lambda a, b: a == b)
    rd("size", lambda: int(e.size), int(A.size), cmp=lambda a, b: a == b)
    rd("ndims", lambda: int(e.ndims), A.ndim, cmp=lambda a, b: a == b)
    rd("sum", lambda: int(e.sum), int(A.sum()), cmp=lambda a, b: a == b)
    rd("is_empty", lambda: bool(e.is_empty), not A.any(), cmp=lambda a, b: a == b)
    want_sp = {tuple(int(i) for i in idx): int(A[tuple(idx)]) for idx in np.argwhere(A)}

    def sp():
        idx, val = np.asarray(e.sparse_indices), np.asarray(e.sparse_values)
        if len(val) == 0 and idx.size == 0:
            return {}
        idx = idx.reshape(len(val), -1)
        return {tuple(int(i) for i in r): int(v) for r, v in zip(idx, val) if v}

    rd("sparse_indices/values", sp, want_sp, cmp=lambda a, b: a == b)

    def spc():
        idx, val = e.sparse_components
        if len(val) == 0 and np.asarray(idx).size == 0:
            return {}
        idx = np.asarray(idx).reshape(len(val), -1)
        return {tuple(int(i) for i in r): int(v) for r, v in zip(idx, np.asarray(val)) if v}

    rd("sparse_components", spc, want_sp, cmp=lambda a, b: a == b)
    # gather_nd: all indices in scrambled order with a repeat
    allidx = np.argwhere(np.ones(A.shape, dtype=bool))
    scr = np.vstack([allidx[::-1], allidx[:1]])
    rd("gather_nd", lambda: np.asarray(e.gather_nd(scr)).astype(int), A[tuple(scr.T)].astype(int))
    rd("gather_nd(single index)", lambda: np.asarray(e.gather_nd(allidx[-1:])).astype(int).reshape(-1), A[tuple(allidx[-1:].T)].astype(int).reshape(-1))
    if A.ndim == 1 and hasattr(e, "gather"):  # `gather` is not part of the abstract read API
        ii = np.arange(A.size)[::-1]
        rd("gather", lambda: np.asarray(e.gather(ii)).astype(int), A[ii].astype(int))
    rd("get_value", lambda: int(e.get_value(allidx[-1])), int(A[tuple(allidx[-1])]), cmp=lambda a, b: a == b)
    mk = (np.arange(A.size).reshape(A.shape) % 3) != 1
    rd("mask", lambda: np.asarray(_dense_of(e.mask(mk))).astype(int).reshape(-1), A[mk].astype(int).reshape(-1))

    def strp():
        s, pad = e.stripped
        return np.asarray(s.dense).astype(int), np.asarray(pad).astype(int)

    if A.any():
        sl = []
        pad = []
        for d in range(A.ndim):
            other = tuple(x for x in range(A.ndim) if x != d)
            nzd = np.nonzero(A.any(axis=other))[0]
            sl.append(slice(nzd.min(), nzd.max() + 1))
            pad.append([nzd.min(), A.shape[d] - nzd.max() - 1])
        rd("stripped", strp, (A[tuple(sl)].astype(int), np.array(pad)), cmp=lambda a, b: a[0].shape == b[0].shape and (a[0] == b[0]).all() and a[1].shape == b[1].shape and (a[1] == b[1]).all())
    rd("flat.dense", lambda: np.asarray(e.flat.dense).astype(int), A.reshape(-1).astype(int))
    # run-length data is documented as valid for flat encodings only
    fl = (lambda: e) if A.ndim == 1 else (lambda: e.flat)
    rd("run_length_data", lambda: decode_rle(fl().run_length_data()), A.reshape(-1).astype(int).tolist(), cmp=lambda a, b: [int(x) for x in a] == b)
    if np.dtype(e.dtype) == bool:  # a binary run length code is defined for boolean data
        rd("binary_run_length_data", lambda: decode_brle(fl().binary_run_length_data()), A.reshape(-1).astype(bool).tolist(), cmp=lambda a, b: a == b)
    rd("copy.dense", lambda: np.asarray(e.copy().dense).astype(int), A.astype(int))
    return failed


def _dense_of(x):
    return x.dense if hasattr(x, "dense") and not isinstance(x, np.ndarray) else x


def _w_enc(task):
    shape, sl, nsl, depth = task
    t = harness.Tally()
    size = int(np.prod(shape))
    for k, bits in enumerate(itertools.product((False, True), repeat=size)):
        if k % nsl != sl:
            continue
        D = np.array(bits, dtype=bool).reshape(shape)
        t.nontrivial_count += 1
        for bname, mk in base_encodings(D).items():
            case = {"family": "encoding", "shape": list(shape), "bits": [int(b) for b in bits], "base": bname, "views": []}
            try:
                e0 = mk()
            except Exception as ex:
                t.violation(f"{bname}: construction raises {exc_class(ex)}", case, {"exc": repr(ex)[:200]})
                continue
            f0 = check_reads(t, e0, D, bname, case)
            for vname, ve, va in views_for(shape):
                c1 = dict(case, views=[vname])
                lab1 = f"{bname}.{view_class(vname)}"
                try:
                    e1 = ve(mk())
                    A1 = va(D)
                except Exception as ex:
                    t.violation(f"{type(e0).__name__}.{view_class(vname)}(): creating the view raises {exc_class(ex)}", c1, {"exc": repr(ex)[:200]})
                    continue
                f1 = check_reads(t, e1, A1, lab1, c1, inner_failed=f0)
                if depth >= 2:
                    for v2name, v2e, v2a in views_for(A1.shape):
                        c2 = dict(case, views=[vname, v2name])
                        lab2 = f"{lab1}.{view_class(v2name)}"
                        try:
                            e2 = v2e(ve(mk()))
                            A2 = v2a(A1)
                        except Exception as ex:
                            t.violation(f"{type(e1).__name__}.{view_class(v2name)}(): creating the view raises {exc_class(ex)}", c2, {"exc": repr(ex)[:200]})
                            continue
                        check_reads(t, e2, A2, lab2, c2, inner_failed=f1)
    return t


# ---------------------------------------------------------------------------
# (c) VoxelGrid
# ---------------------------------------------------------------------------


def _w_grid(task):
    shape, sl, nsl = task
    import trimesh
    from trimesh.voxel import VoxelGrid

    t = harness.Tally()
    size = int(np.prod(shape))
    T0 = np.eye(4)
    T1 = np.diag([0.5, 2.0, 1.5, 1.0])
    T1[:3, 3] = [1, -2, 3]
    T2 = np.eye(4)
    T2[:3, :3] = [[0, -1, 0], [1, 0, 0], [0, 0, 1]]
    T2[:3, 3] = [5, 0, 1]
    for k, bits in enumerate(itertools.product((False, True), repeat=size)):
        if k % nsl != sl:
            continue
        D = np.array(bits, dtype=bool).reshape(shape)
        for tn, T in (("identity", T0), ("scale+translate", T1), ("rotation", T2)):
            case = {"family": "grid", "shape": list(shape), "bits": [int(b) for b in bits], "transform": tn}
            t.evaluations += 1
            t.nontrivial_count += 1
            try:
                g = VoxelGrid(D.copy(), transform=T.copy())
                idx = np.argwhere(np.ones(shape, dtype=bool))
                pts = g.indices_to_points(idx)
                want_pts = idx @ T[:3, :3].T + T[:3, 3]
                if not np.allclose(pts, want_pts, atol=1e-12):
                    t.violation("VoxelGrid.indices_to_points differs from the transform applied to indices", case, {})
                    continue
                back = g.points_to_indices(pts)
                if not (np.asarray(back) == idx).all():
                    t.violation("VoxelGrid.points_to_indices is not the inverse of indices_to_points", case, {"got": back[:4], "want": idx[:4]})
                # points inside a cell (+-0.49 of a cell in index space) map to that cell
                for off in ([0.49, 0.49, 0.49], [-0.49, 0.49, -0.49]):
                    p2 = (idx + off) @ T[:3, :3].T + T[:3, 3]
                    if not (np.asarray(g.points_to_indices(p2)) == idx).all():
                        t.violation("VoxelGrid.points_to_indices: a point inside a cell maps to another cell", case, {"offset": off})
                        break
                fill = np.asarray(g.is_filled(pts))
                if fill.tolist() != D.reshape(-1).tolist():
                    t.violation("VoxelGrid.is_filled differs from the dense array", case, {"got": fill.astype(int), "want": D.reshape(-1).astype(int)})
                if int(g.filled_count) != int(D.sum()):
                    t.violation("VoxelGrid.filled_count differs from the dense array", case, {})
                cell = abs(np.linalg.det(T[:3, :3]))
                if abs(float(g.volume) - D.sum() * cell) > 1e-9 * max(1, D.sum() * cell):
                    t.violation("VoxelGrid.volume is not filled count times cell volume", case, {"got": float(g.volume), "want": D.sum() * cell})
                if D.any():
                    gp = np.asarray(g.points)
                    wp = np.argwhere(D) @ T[:3, :3].T + T[:3, 3]
                    if sorted(map(tuple, np.round(gp, 9).tolist())) != sorted(map(tuple, np.round(wp, 9).tolist())):
                        t.violation("VoxelGrid.points are not the centres of the filled cells", case, {})
                    s = g.copy().strip()
                    sp = np.asarray(s.points)
                    if sorted(map(tuple, np.round(sp, 9).tolist())) != sorted(map(tuple, np.round(wp, 9).tolist())):
                        t.violation("VoxelGrid.strip moves the filled cells", case, {})
                c = g.copy()
                if not (np.asarray(c.encoding.dense) == D).all() or not np.allclose(c.transform, T):
                    t.violation("VoxelGrid.copy differs from the original", case, {})
                # binvox round trip: cubic grids, uniform scale (the format's domain)
                if len(set(shape)) == 1 and shape[0] >= 2 and tn == "identity":
                    for axis_order in ("xyz", "xzy"):
                        data = trimesh.exchange.binvox.export_binvox(g, axis_order=axis_order)
                        import io

                        g2 = trimesh.exchange.binvox.load_binvox(io.BytesIO(data), axis_order=axis_order)
                        if np.asarray(g2.encoding.dense).shape != D.shape or not (np.asarray(g2.encoding.dense) == D).all():
                            t.violation(f"binvox export -> load changes the cells [axis_order {axis_order}]", dict(case, axis_order=axis_order), {"got": np.asarray(g2.encoding.dense).astype(int), "want": D.astype(int)})
                        elif D.any():
                            p2 = np.asarray(g2.points)
                            if not np.allclose(sorted(map(tuple, np.round(p2, 6).tolist())), sorted(map(tuple, np.round(np.asarray(g.points), 6).tolist())), atol=1e-5):
                                t.violation(f"binvox export -> load moves the cells [axis_order {axis_order}]", dict(case, axis_order=axis_order), {})
            except Exception as ex:
                t.violation(f"VoxelGrid: raises {exc_class(ex)} [{tn}]", case, {"exc": repr(ex)[:300]})
    return t


def _run(task):
    return task[0](task[1])


def tasks_for(tier):
    tasks = []
    NS = 16
    maxb = 8 if tier == "quick" else 10
    for n in range(0, maxb + 1):
        nsl = NS if 2**n > 64 else 1
        for sl in range(nsl):
            tasks.append((_w_codec_bool, (n, sl, nsl)))
    maxi = 5 if tier == "quick" else 7
    for n in range(1, maxi + 1):
        nsl = NS if 3**n > 100 else 1
        for sl in range(nsl):
            tasks.append((_w_codec_int, (n, sl, nsl)))
    for dt in ("uint8", "int8", "uint16", "int64"):
        for fv in (False, True):
            tasks.append((_w_runs, (dt, fv)))
    for kind in ("brle", "rle"):
        for sl in range(NS):
            tasks.append((_w_noncanon, (kind, tier, sl, NS)))
        for dt in ("uint8", "int8"):
            tasks.append((_w_split, (kind, dt)))
    shapes = [(2, 2, 2), (1, 2, 3), (3, 1, 2)] + ([(2, 3, 2)] if tier == "thorough" else [])
    for shp in shapes:
        size = int(np.prod(shp))
        nsl = 64 if tier == "thorough" else 32
        depth = 2 if tier == "thorough" else 1
        for sl in range(nsl):
            tasks.append((_w_enc, (shp, sl, nsl, depth)))
    if tier == "quick":
        # depth-2 view compositions on a 1/8 slice-free sub-family: all arrays of shape (1,2,2)
        tasks.append((_w_enc, ((1, 2, 2), 0, 1, 2)))
    for shp in [(2, 2, 2), (1, 2, 3)] + ([(3, 3, 1)] if tier == "thorough" else []):
        for sl in range(8):
            tasks.append((_w_grid, (shp, sl, 8)))
    return tasks


def replay(case):
    t = harness.Tally()
    fam = case["family"]
    if fam == "codec":
        if case["kind"] == "bool":
            check_codec_seq(t, [bool(v) for v in case["seq"]], True, {k: case[k] for k in ("family", "kind", "seq")}, [np.int64, np.uint8])
        else:
            check_codec_seq(t, list(case["seq"]), False, {k: case[k] for k in ("family", "kind", "seq")}, [np.int64])
    elif fam == "runs":
        t.merge(_w_runs((case["dtype"], case["first"])))
    elif fam == "noncanon":
        check_noncanon(t, case["kind"], list(case["code"]), {k: case[k] for k in ("family", "kind", "code")})
    elif fam == "split":
        check_split(t, case["kind"], list(case["lengths"]), case["dtype"], {k: case[k] for k in ("family", "kind", "dtype", "lengths")})
    elif fam == "encoding":
        shape = tuple(case["shape"])
        # re-run the single array at depth 2
        size = int(np.prod(shape))
        bits = tuple(bool(b) for b in case["bits"])
        k = list(itertools.product((False, True), repeat=size)).index(bits)
        t.merge(_w_enc((shape, k, 2**size, 2)))
    else:
        shape = tuple(case["shape"])
        size = int(np.prod(shape))
        bits = tuple(bool(b) for b in case["bits"])
        k = list(itertools.product((False, True), repeat=size)).index(bits)
        t.merge(_w_grid((shape, k, 2**size)))
    return [(k, d) for k, c, d in t.violations]


def main(run):
    tasks = tasks_for(run.tier)
    run.log(f"{len(tasks)} tasks")
    res = harness.pmap(_run, tasks)
    run.merge(res)
    cov = {
        "exhaustive": True,
        "rule": "every boolean sequence up to length 8/10 and every {0,1,2} sequence up to length 5/7 through every codec (all index lists up to length 3 for gathers, all masks); run structures of <=3 runs with lengths around 127/255/511 for uint8/int8/uint16/int64 counts; every non-canonical code word (brle counts in {0..3} up to length 5/6, rle (value,count) pairs over {0,1,2}x{0,1,2} up to 3/4 pairs) through every codec function incl. sorted gathers and merge_*; split_long_*/merge_* for every length vector up to 3 (and a slice of 4) over {0,1,2,254,255,256,510,511} in uint8/int8; every boolean array of the listed shapes x 4 base encodings x every lazy view (x every second view in thorough) x every read of the Encoding API; VoxelGrid maps, counts, volume, strip, copy, binvox round trip",
        "tasks": len(tasks),
    }
    return run.finish(cov, assumptions=["oracle: numpy on the dense array, Python lists for codecs", "an exception on a valid read is a violation"], confirm_limit=6)
