"""
C19 - rotation / transform representations convert consistently.

Engine E2: complete grids (all 24 Euler conventions x an angle grid containing every
singular angle and values either side of it; every normalised integer quaternion of both
signs; every lattice axis; compose/decompose over a parameter product; 2D/3D point
transforms) against an oracle written from the definitions (elementary rotations,
Rodrigues' formula, quaternion sandwich product).  Comparisons at the matrix level.
"""

import itertools

import numpy as np

from mc.core import harness

LEVEL = "exploration"
TOL = 1e-9


def tf():
    import trimesh.transformations as t

    return t


# ---------------------------------------------------------------------------
# oracle
# ---------------------------------------------------------------------------


def R_axis(ax, a):
    c, s = np.cos(a), np.sin(a)
    if ax == "x":
        return np.array([[1, 0, 0], [0, c, -s], [0, s, c]])
    if ax == "y":
        return np.array([[c, 0, s], [0, 1, 0], [-s, 0, c]])
    return np.array([[c, -s, 0], [s, c, 0], [0, 0, 1]])


def euler_oracle(ai, aj, ak, axes):
    frame, a1, a2, a3 = axes[0], axes[1], axes[2], axes[3]
    R1, R2, R3 = R_axis(a1, ai), R_axis(a2, aj), R_axis(a3, ak)
    return R3 @ R2 @ R1 if frame == "s" else R1 @ R2 @ R3


def rodrigues(axis, angle):
    n = np.asarray(axis, dtype=float)
    n = n / np.linalg.norm(n)
    K = np.array([[0, -n[2], n[1]], [n[2], 0, -n[0]], [-n[1], n[0], 0]])
    return np.eye(3) + np.sin(angle) * K + (1 - np.cos(angle)) * (K @ K)


def qmul(a, b):
    w1, x1, y1, z1 = a
    w2, x2, y2, z2 = b
    return np.array([
        w1 * w2 - x1 * x2 - y1 * y2 - z1 * z2,
        w1 * x2 + x1 * w2 + y1 * z2 - z1 * y2,
        w1 * y2 - x1 * z2 + y1 * w2 + z1 * x2,
        w1 * z2 + x1 * y2 - y1 * x2 + z1 * w2,
    ])


def quat_oracle(q):
    """Rotation matrix of a (not necessarily unit) quaternion [w,x,y,z] by the sandwich product."""
    q = np.asarray(q, dtype=float)
    q = q / np.linalg.norm(q)
    qc = q * [1, -1, -1, -1]
    M = np.zeros((3, 3))
    for i in range(3):
        e = np.zeros(4)
        e[i + 1] = 1
        M[:, i] = qmul(qmul(q, e), qc)[1:]
    return M


def is_rotation(M):
    M = np.asarray(M)[:3, :3]
    return np.abs(M @ M.T - np.eye(3)).max() < 1e-9 and abs(np.linalg.det(M) - 1) < 1e-9


def close(a, b, tol=TOL):
    a, b = np.asarray(a, dtype=float), np.asarray(b, dtype=float)
    return a.shape == b.shape and np.abs(a - b).max() <= tol * max(1.0, np.abs(b).max())


ALL_AXES = [f + "".join(p) for f in "sr" for p in
            ["xyz", "xyx", "xzy", "xzx", "yzx", "yzy", "yxz", "yxy", "zxy", "zxz", "zyx", "zyz"]]


def angle_grid(tier):
    base = [k * np.pi / 6 for k in range(-6, 7)] + [k * np.pi / 4 for k in (-3, -1, 1, 3)]
    eps = [1e-9, -1e-9, np.pi / 2 - 1e-9, np.pi / 2 + 1e-9, -np.pi / 2 + 1e-9, -np.pi / 2 - 1e-9, np.pi - 1e-9, -np.pi + 1e-9]
    if tier == "thorough":
        base += [0.3, -1.1, 2.5, 1e-5, -1e-5, np.pi / 2 - 1e-5, np.pi / 2 + 1e-5]
    return sorted(set(base + eps))


# ---------------------------------------------------------------------------
# workers
# ---------------------------------------------------------------------------


def _w_euler(task, grid=None):
    axes, tier = task
    t = harness.Tally()
    T = tf()
    grid = angle_grid(tier) if grid is None else grid
    outer = grid
    singular = {0.0, np.pi, -np.pi, np.pi / 2, -np.pi / 2}
    for ai in outer:
        for aj in grid:
            for ak in grid:
                case = {"family": "euler", "axes": axes, "angles": [ai, aj, ak]}
                t.evaluations += 1
                want = euler_oracle(ai, aj, ak, axes)
                M = T.euler_matrix(ai, aj, ak, axes)
                gimbal = min(abs(abs(aj) - s) for s in (0, np.pi / 2, np.pi)) < 1e-6
                # within 1e-9 of (but not at) a singular angle the inverse trigonometric step
                # amplifies rounding by 1/cos: 4e-16 / 1e-9 = 4e-7 is the conditioning, not a defect
                gtol = 5e-6 if gimbal else TOL
                cls = f"{axes}" + (" at a singular middle angle" if gimbal else "")
                if gimbal:
                    t.stats["euler_singular_cases"] += 1
                t.nontrivial_count += 1
                if not close(M[:3, :3], want) or not close(M[3], [0, 0, 0, 1]) or not close(M[:3, 3], [0, 0, 0]):
                    t.violation(f"euler_matrix differs from the product of elementary rotations [{axes}]", case, {"got": M, "want": want})
                    continue
                try:
                    back = T.euler_from_matrix(M, axes)
                    M2 = T.euler_matrix(*back, axes=axes)
                    if not close(M2[:3, :3], want, gtol):
                        t.violation(f"euler_from_matrix round trip gives a different rotation [{cls}]", case, {"angles_back": back, "got": M2, "want": want})
                    q = T.quaternion_from_euler(ai, aj, ak, axes)
                    Mq = T.quaternion_matrix(q)
                    if not close(Mq[:3, :3], want):
                        t.violation(f"quaternion_from_euler describes a different rotation [{axes}]", case, {"q": q})
                    elif abs(np.linalg.norm(q) - 1) > 1e-9:
                        t.violation(f"quaternion_from_euler not unit [{axes}]", case, {"q": q})
                    else:
                        e2 = T.euler_from_quaternion(q, axes)
                        if not close(T.euler_matrix(*e2, axes=axes)[:3, :3], want, gtol):
                            t.violation(f"euler_from_quaternion round trip gives a different rotation [{cls}]", case, {"angles_back": e2})
                    # quaternion from the matrix: both code paths
                    for precise in (False, True):
                        q2 = T.quaternion_from_matrix(M, isprecise=precise)
                        if not close(T.quaternion_matrix(q2)[:3, :3], want, 1e-7):
                            t.violation(f"quaternion_from_matrix(isprecise={precise}) round trip gives a different rotation", dict(case, isprecise=precise), {"q": q2})
                            break
                except Exception as e:
                    t.violation(f"euler conversion raises {type(e).__name__} [{cls}]", case, {"exc": repr(e)[:200]})
    t.sample({"family": "euler", "axes": axes, "angles": [grid[len(grid) // 3], grid[len(grid) // 2], grid[-1]]}, limit=1)
    return t


def int_quats(r=2):
    return [q for q in itertools.product(range(-r, r + 1), repeat=4) if any(q)]


def _w_quat(task):
    sl, nsl = task
    t = harness.Tally()
    T = tf()
    qs = int_quats(2)
    branch = set()
    for k, qi in enumerate(qs):
        if k % nsl != sl:
            continue
        q = np.array(qi, dtype=float)
        q /= np.linalg.norm(q)
        want = quat_oracle(q)
        case = {"family": "quaternion", "q": list(qi)}
        t.evaluations += 1
        t.nontrivial_count += 1
        M = T.quaternion_matrix(q)
        if not close(M[:3, :3], want) or not close(M[3], [0, 0, 0, 1]):
            t.violation("quaternion_matrix differs from the sandwich product", case, {"got": M, "want": want})
            continue
        if not close(T.quaternion_matrix(-q)[:3, :3], want):
            t.violation("quaternion_matrix(q) != quaternion_matrix(-q)", case, {})
        if not is_rotation(M):
            t.violation("quaternion_matrix is not orthonormal with determinant +1", case, {"got": M})
        d = np.diag(want)
        tr = d.sum()
        branch.add("trace" if tr > max(d) else "xyz"[int(np.argmax(d))])
        for precise in (False, True):
            q2 = T.quaternion_from_matrix(M, isprecise=precise)
            if abs(np.linalg.norm(q2) - 1) > 1e-9 or not close(quat_oracle(q2), want, 1e-7):
                t.violation(f"quaternion_from_matrix(isprecise={precise}) does not invert quaternion_matrix [largest of trace/diagonal: {'trace' if tr > max(d) else 'xyz'[int(np.argmax(d))]}]", dict(case, isprecise=precise), {"got": q2})
        # conjugate / inverse
        if not close(T.quaternion_matrix(T.quaternion_conjugate(q))[:3, :3], want.T) or not close(T.quaternion_matrix(T.quaternion_inverse(q))[:3, :3], want.T):
            t.violation("quaternion_conjugate / inverse is not the inverse rotation", case, {})
        # rotation_from_matrix round trip
        try:
            ang, direc, point = T.rotation_from_matrix(M)
            R2 = T.rotation_matrix(ang, direc, point)
            if not close(R2, M, 1e-7):
                ax = np.abs(direc) > 1e-8
                t.violation(f"rotation_from_matrix -> rotation_matrix gives a different rotation [axis components nonzero: {''.join(c for c, b in zip('xyz', ax) if b)}]", case, {"angle": ang, "direction": direc, "got": R2, "want": M})
        except Exception as e:
            if not close(M, np.eye(4)):  # identity has no axis: documented ValueError
                t.violation(f"rotation_from_matrix raises {type(e).__name__}", case, {"exc": repr(e)[:200]})
        # multiply with a few partners
        for pj in qs[:: max(1, len(qs) // 40)]:
            p = np.array(pj, dtype=float)
            p /= np.linalg.norm(p)
            t.evaluations += 1
            prod = T.quaternion_multiply(q, p)
            if not close(quat_oracle(prod), want @ quat_oracle(p), 1e-8) or abs(np.linalg.norm(prod) - 1) > 1e-9:
                t.violation("quaternion_multiply(q1, q0) is not the rotation q1 after q0", dict(case, p=list(pj)), {})
                break
            for frac in (0.0, 0.25, 0.5, 1.0):
                s = T.quaternion_slerp(q, p, frac)
                if abs(np.linalg.norm(s) - 1) > 1e-9:
                    t.violation("quaternion_slerp result is not a unit quaternion", dict(case, p=list(pj), fraction=frac), {"got": s})
                    break
                Ms = quat_oracle(s)
                if frac == 0.0 and not close(Ms, want, 1e-8):
                    t.violation("quaternion_slerp(fraction=0) is not the first rotation", dict(case, p=list(pj)), {})
                    break
                if frac == 1.0 and not close(Ms, quat_oracle(p), 1e-8):
                    t.violation("quaternion_slerp(fraction=1) is not the second rotation", dict(case, p=list(pj)), {})
                    break
                if frac in (0.25, 0.5) and abs(abs(np.dot(q, p)) - 1) > 1e-6 and abs(np.dot(q, p)) > 1e-9:
                    # relative rotation from q to s is `frac` of the one from q to p (shortest path)
                    def ang(a, b):
                        return 2 * np.arccos(min(1.0, abs(np.dot(a, b))))
                    if abs(ang(q, s) - frac * ang(q, p)) > 1e-7:
                        t.violation("quaternion_slerp is not at the requested fraction of the arc", dict(case, p=list(pj), fraction=frac), {"got": ang(q, s), "want": frac * ang(q, p)})
                        break
    t.stats["quat_branches:" + ",".join(sorted(branch))] += 1
    return t


def lattice_axes(r):
    return [a for a in itertools.product(range(-r, r + 1), repeat=3) if any(a)]


def _w_axis_angle(task):
    tier = task
    t = harness.Tally()
    T = tf()
    axes = lattice_axes(1) + [(1, 2, 3), (2, -1, 5), (-2, 2, 1), (0, 1, 2)]
    if tier == "thorough":
        axes = lattice_axes(2)
    points = [None, (0, 0, 0), (1, 2, 3), (-2, 0, 5)]
    # small angles: every eigenvalue of the rotation is within 1e-8 of 1 in its real part below 1.4e-4
    small = [1e-5, -1e-5, 1e-7, -3e-6]
    pairs = [(ax, ang) for ax in axes for ang in angle_grid(tier)]
    pairs += [(ax, ang) for ax in lattice_axes(2) for ang in small if (ax, ang) not in set(pairs)]
    for ax, ang in pairs:
        if True:
            want3 = rodrigues(ax, ang)
            for pt in points:
                case = {"family": "axis_angle", "axis": list(ax), "angle": ang, "point": None if pt is None else list(pt)}
                t.evaluations += 1
                t.nontrivial_count += 1
                M = T.rotation_matrix(ang, ax, pt)
                p = np.zeros(3) if pt is None else np.array(pt, dtype=float)
                want = np.eye(4)
                want[:3, :3] = want3
                want[:3, 3] = p - want3 @ p
                if not close(M, want):
                    t.violation("rotation_matrix differs from Rodrigues' formula about the point", case, {"got": M, "want": want})
                    continue
                if not close(M[:3, :3] @ p + M[:3, 3], p):
                    t.violation("rotation about a point moves that point", case, {})
                if pt is None:
                    q = T.quaternion_about_axis(ang, ax)
                    if not close(quat_oracle(q), want3):
                        t.violation("quaternion_about_axis differs from Rodrigues' formula", case, {"q": q})
                if abs(np.sin(ang)) > 1e-6:
                    try:
                        a2, d2, p2 = T.rotation_from_matrix(M)
                        M2 = T.rotation_matrix(a2, d2, p2)
                        if not close(M2, want, 1e-6):
                            nz = "".join(c for c, b in zip("xyz", np.abs(np.array(ax)) > 0) if b)
                            t.violation(f"rotation_from_matrix -> rotation_matrix gives a different transform [axis components nonzero: {nz}]", case, {"got": M2, "want": want})
                    except Exception as e:
                        t.violation(f"rotation_from_matrix raises {type(e).__name__}", case, {"exc": repr(e)[:200]})
                # transform_around with the pure rotation
                if pt is not None:
                    R0 = np.eye(4)
                    R0[:3, :3] = want3
                    Ta = T.transform_around(R0, np.array(pt, dtype=float))
                    if not close(Ta, want):
                        t.violation("transform_around differs from T(p) R T(-p)", case, {"got": Ta, "want": want})
    return t


def _w_compose(task):
    tier = task
    t = harness.Tally()
    T = tf()
    scales = [(1, 1, 1), (2, 2, 2), (1, 2, 3), (0.5, 1, 4)]
    shears = [(0, 0, 0), (0.5, 0, 0), (0.1, 0.2, 0.3), (0, -0.4, 0.7)]
    grid = [k * np.pi / 6 for k in range(-5, 6)] if tier == "thorough" else [-2.5, -np.pi / 2, -0.7, 0.0, 0.4, np.pi / 2, 2.0, np.pi - 1e-9]
    trans = [(0, 0, 0), (1, -2, 3)]
    for sc, sh, tr in itertools.product(scales, shears, trans):
        for ai, aj, ak in itertools.product(grid, repeat=3):
            case = {"family": "compose", "scale": sc, "shear": sh, "angles": [ai, aj, ak], "translate": tr}
            t.evaluations += 1
            t.nontrivial_count += 1
            M = T.compose_matrix(scale=sc, shear=sh, angles=(ai, aj, ak), translate=tr)
            R = np.eye(4)
            R[:3, :3] = euler_oracle(ai, aj, ak, "sxyz")
            Z = np.eye(4)
            Z[0, 1], Z[0, 2], Z[1, 2] = sh
            S = np.diag(list(sc) + [1.0])
            Tm = np.eye(4)
            Tm[:3, 3] = tr
            want = Tm @ R @ Z @ S
            if not close(M, want):
                t.violation("compose_matrix differs from T.R.Z.S", case, {"got": M, "want": want})
                continue
            try:
                sc2, sh2, an2, tr2, pe2 = T.decompose_matrix(M)
                M2 = T.compose_matrix(sc2, sh2, an2, tr2, pe2)
                if not close(M2, want, 1e-7):
                    t.violation("compose_matrix(*decompose_matrix(M)) != M", case, {"got": M2, "want": want})
                gimbal = abs(abs(aj) - np.pi / 2) < 1e-6
                if not gimbal:
                    if not close(sc2, sc, 1e-7) or not close(sh2, sh, 1e-7) or not close(tr2, tr, 1e-7):
                        t.violation("decompose_matrix does not return the factors the matrix was composed from", case, {"scale": sc2, "shear": sh2, "translate": tr2})
                    elif not close(T.euler_matrix(*an2)[:3, :3], R[:3, :3], 1e-7):
                        t.violation("decompose_matrix angles describe a different rotation", case, {"angles": an2})
            except Exception as e:
                t.violation(f"decompose_matrix raises {type(e).__name__}", case, {"exc": repr(e)[:200]})
    return t


def _w_points(_):
    t = harness.Tally()
    T = tf()
    P3 = np.array(list(itertools.product((-1, 0, 2), repeat=3)), dtype=float)
    P2 = np.array(list(itertools.product((-1, 0, 2, 5), repeat=2)), dtype=float)
    mats3 = []
    for ax, ang, tr, sc in itertools.product([(0, 0, 1), (1, 1, 0), (1, 2, 3)], [0.0, 1e-9, 0.5, np.pi / 2, np.pi], [(0, 0, 0), (1, 2, 3), (1e-9, 0, 0)], [1.0, 2.0, (1, 2, 3)]):
        M = np.eye(4)
        M[:3, :3] = rodrigues(ax, ang) @ np.diag(np.ones(3) * sc)
        M[:3, 3] = tr
        mats3.append(M)
    sh = np.eye(4)
    sh[0, 1] = 0.5
    sh[2, 3] = 1
    mats3.append(sh)
    for M in mats3:
        for translate in (True, False):
            for pts in (P3, P3[:1], P3[:0]):
                case = {"family": "points3", "matrix": M.tolist(), "translate": translate, "n": len(pts)}
                t.evaluations += 1
                t.nontrivial_count += 1
                got = T.transform_points(pts, M, translate=translate)
                h = np.column_stack([pts, np.ones(len(pts)) if translate else np.zeros(len(pts))])
                want = (M @ h.T).T[:, :3]
                # the identity shortcut may ignore a matrix within 1e-8 of the identity
                tol = 1e-8 * (1 + np.abs(pts).max()) if len(pts) and np.abs(M - np.eye(4)).max() < 1e-8 else 1e-12
                if got.shape != want.shape or (len(pts) and np.abs(got - want).max() > tol + 1e-12 * np.abs(want).max()):
                    t.violation(f"transform_points(3D, translate={translate}) differs from homogeneous multiplication", case, {"got": got, "want": want})
    for th, off, sc in itertools.product([0.0, 0.5, np.pi / 2, -2.0], [(0, 0), (1, -2)], [None, 2.0]):
        for point in (None, (1, 2)):
            case = {"family": "planar", "theta": th, "offset": off, "point": point, "scale": sc}
            t.evaluations += 1
            t.nontrivial_count += 1
            M = T.planar_matrix(offset=off, theta=th, point=point, scale=sc)
            L = M[:2, :2] / (sc or 1.0)
            if not close(L @ L.T, np.eye(2)) or abs(np.linalg.det(L) - 1) > 1e-9 or abs(abs(np.arctan2(L[1, 0], L[0, 0])) - abs(np.arctan2(np.sin(th), np.cos(th)))) > 1e-9:
                t.violation("planar_matrix linear part is not a rotation by theta", case, {"got": M})
            if point is not None and sc is None and off == (0, 0):
                p = np.array(point, dtype=float)
                if not close(M[:2, :2] @ p + M[:2, 2], p):
                    t.violation("planar_matrix rotation about a point moves that point", case, {"got": M})
            M3 = T.planar_matrix_to_3D(M)
            want3 = np.eye(4)
            want3[:2, :2] = M[:2, :2]
            want3[:2, 3] = M[:2, 2]
            if not close(M3, want3):
                t.violation("planar_matrix_to_3D does not embed the 2D matrix", case, {"got": M3})
            for translate in (True, False):
                got = T.transform_points(P2, M, translate=translate)
                h = np.column_stack([P2, np.ones(len(P2)) if translate else np.zeros(len(P2))])
                want = (M @ h.T).T[:, :2]
                t.evaluations += 1
                if not close(got, want, 1e-12):
                    t.violation(f"transform_points(2D, translate={translate}) differs from homogeneous multiplication", dict(case, translate=translate), {"got": got, "want": want})
    # scale_and_translate, is_rigid, fix_rigid
    # every factor pattern (all one, some exactly one, none one) in every container the argument may come in
    patterns = [None, 2.0, 1.0, (1, 2, 3), (2, 1, 1), (1, 1, 3), (1, 1, 1), (2, 3, 4), (-1, 1, 2)]
    scales = list(patterns)
    for pat in patterns:
        if isinstance(pat, tuple):
            scales += [np.array(pat, dtype=float), np.array(pat, dtype=np.int64), list(pat)]
    for sc, tr in itertools.product(scales, [None, (1, 2, 3), np.array([0.0, 0.0, 0.0]), np.array([1.0, 0.0, -2.0])]):
        M = T.scale_and_translate(scale=sc, translate=tr)
        want = np.eye(4)
        if sc is not None:
            want[:3, :3] = np.diag(np.ones(3) * np.asarray(sc, dtype=float))
        if tr is not None:
            want[:3, 3] = tr
        t.evaluations += 1
        if not close(M, want):
            t.violation("scale_and_translate differs from diag(scale) with translation", {"family": "scale_translate", "scale": np.asarray(sc).tolist() if sc is not None else None, "scale_type": type(sc).__name__, "translate": np.asarray(tr).tolist() if tr is not None else None}, {"got": M})
    for M in mats3:
        rigid = np.abs(M[:3, :3] @ M[:3, :3].T - np.eye(3)).max() < 1e-8 and np.linalg.det(M[:3, :3]) > 0
        t.evaluations += 1
        if bool(T.is_rigid(M)) != bool(rigid):
            t.violation("is_rigid disagrees with orthonormality of the linear part", {"family": "is_rigid", "matrix": M.tolist()}, {"got": bool(T.is_rigid(M))})
        if rigid:
            P = M.copy()
            P[0, 1] += 3e-7
            F = T.fix_rigid(P)
            if not is_rotation(F) or not close(F, M, 1e-5) or not close(F[:3, 3], M[:3, 3]):
                t.violation("fix_rigid does not restore an orthonormal matrix close to the input", {"family": "fix_rigid", "matrix": P.tolist()}, {"got": F})
    return t


def _w_align(_):
    from trimesh import geometry

    t = harness.Tally()
    dirs = lattice_axes(1)
    for a in dirs:
        for b in dirs:
            case = {"family": "align", "a": list(a), "b": list(b)}
            t.evaluations += 1
            t.nontrivial_count += 1
            ua = np.array(a, dtype=float) / np.linalg.norm(a)
            ub = np.array(b, dtype=float) / np.linalg.norm(b)
            rel = "antiparallel" if np.allclose(ua, -ub) else ("parallel" if np.allclose(ua, ub) else "generic")
            try:
                M, ang = geometry.align_vectors(a, b, return_angle=True)
            except Exception as e:
                t.violation(f"align_vectors raises {type(e).__name__} [{rel}]", case, {"exc": repr(e)[:200]})
                continue
            if M.shape != (4, 4) or not is_rotation(M) or not close(M[:3, 3], [0, 0, 0]):
                t.violation(f"align_vectors result is not a pure rotation [{rel}]", case, {"got": M})
            elif not close(M[:3, :3] @ ua, ub, 1e-8):
                t.violation(f"align_vectors does not take a to b [{rel}]", case, {"got": M[:3, :3] @ ua, "want": ub})
            elif abs(ang - np.arccos(np.clip(np.dot(ua, ub), -1, 1))) > 1e-7:
                t.violation(f"align_vectors returns the wrong angle [{rel}]", case, {"got": ang})
        for origin in ((0, 0, 0), (1, 2, 3)):
            M = geometry.plane_transform(np.array(origin, dtype=float), np.array(a, dtype=float))
            ua = np.array(a, dtype=float) / np.linalg.norm(a)
            t.evaluations += 1
            o = M[:3, :3] @ np.array(origin, dtype=float) + M[:3, 3]
            if not is_rotation(M) or not close(M[:3, :3] @ ua, [0, 0, 1], 1e-8) or abs(o[2]) > 1e-9 or np.abs(o).max() > 1e-9:
                t.violation("plane_transform does not move the plane onto XY with its origin at 0", {"family": "plane_transform", "origin": list(origin), "normal": list(a)}, {"got": M})
    return t


def _run(task):
    return task[0](task[1])


def replay(case):
    t = harness.Tally()
    fam = case["family"]
    T = tf()
    if fam == "euler":
        # run the single grid point through the same code
        axes = case["axes"]
        ai, aj, ak = case["angles"]
        tt = _w_euler((axes, "quick"), grid=[ai, aj, ak])
        t.merge(tt)
    elif fam == "quaternion":
        t.merge(_w_quat((0, 1)))
    elif fam == "axis_angle":
        t.merge(_w_axis_angle("thorough"))
        t.merge(_w_axis_angle("quick"))
    elif fam == "compose":
        t.merge(_w_compose("quick"))
        t.merge(_w_compose("thorough"))
    elif fam in ("align", "plane_transform"):
        t.merge(_w_align(None))
    else:
        t.merge(_w_points(None))
    return [(k, d) for k, c, d in t.violations]


def main(run):
    tier = run.tier
    tasks = [(_w_euler, (ax, tier)) for ax in ALL_AXES]
    tasks += [(_w_quat, (i, 16)) for i in range(16)]
    tasks += [(_w_axis_angle, tier), (_w_compose, tier), (_w_points, None), (_w_align, None)]
    res = harness.pmap(_run, tasks)
    run.merge(res)
    cov = {
        "exhaustive": True,
        "angle_grid": len(angle_grid(tier)),
        "conventions": len(ALL_AXES),
        "rule": "all 24 Euler conventions x angle grid^3 (multiples of pi/6, pi/4, and 1e-9 either side of 0, +-pi/2, +-pi); all integer quaternions in {-2..2}^4 (both signs) with partners; lattice axes x angle grid x points; compose/decompose over scale x shear x angles x translation; 2D/3D point arrays x matrices x translate flag; all ordered pairs of the 26 lattice directions for align_vectors",
    }
    return run.finish(cov, assumptions=["static Euler = R3.R2.R1, rotating = R1.R2.R3 with elementary rotations from cos/sin", "matrix-level comparison, tolerance 1e-9 (1e-7 after an inverse trigonometric round trip at singular angles)", "planar_matrix: direction of theta not demanded (rotation by +-theta)"])
