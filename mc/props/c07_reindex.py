"""
C07 - re-indexing operations never move triangles or misalign attached data.

Engine E2 (+ sequences of two operations in the thorough tier).  Every face and every vertex
carries a tag, encoded redundantly in colours (or texture coordinates) and in
face/vertex attributes.  After each operation: every surviving face with tag t has the
corner positions, colour and attribute of the original face t; every surviving vertex
with tag u has position and data of the original vertex u; faces index existing
vertices; surviving faces keep their relative order (boolean masks) or follow the mask
(integer masks); split + concatenate reproduces the triangle multiset.
"""

import itertools

import numpy as np

from mc.core import harness

LEVEL = "exploration"

P = np.array([[0, 0, 0], [3, 0, 0], [0, 3, 0], [0, 0, 3], [3, 3, 1]], dtype=np.float64)

# vertex configurations: name -> (positions, note)
def vertex_configs():
    nan = np.array([np.nan, 1.0, 2.0])
    inf = np.array([1.0, np.inf, 2.0])
    return {
        "clean4": P[:4].copy(),
        "clean5": P[:5].copy(),
        "exact_duplicate": np.vstack([P[:4], P[1]]),
        "near_duplicate_1e-9": np.vstack([P[:4], P[1] + [1e-9, 0, 0]]),
        "duplicate_outside_tol_1e-6": np.vstack([P[:4], P[1] + [1e-6, 0, 0]]),
        "nan_vertex": np.vstack([P[:4], nan]),
        "inf_vertex_and_duplicate": np.vstack([P[:3], inf, P[1]]),
    }


def face_alphabet(nv):
    nondeg = list(itertools.permutations(range(nv), 3))
    deg = [(i, i, (i + 1) % nv) for i in range(nv)]
    return nondeg + deg


def fcol(t):
    return [10 + t, 20 + 2 * t, 7, 255]


def vcol(u):
    return [100 + u, 50 + 3 * u, 9, 255]


def build(V, F, visual):
    import trimesh

    V = np.array(V, dtype=np.float64)
    F = np.array(F, dtype=np.int64).reshape(-1, 3)
    m = trimesh.Trimesh(vertices=V.copy(), faces=F.copy(), process=False)
    if visual == "face":
        m.visual.face_colors = np.array([fcol(t) for t in range(len(F))], dtype=np.uint8)
    elif visual == "face_painted":
        # the default colour array is read and painted in place (never assigned)
        c = m.visual.face_colors
        if len(F):
            c[:] = np.array([fcol(t) for t in range(len(F))], dtype=np.uint8)
    elif visual == "vertex":
        m.visual.vertex_colors = np.array([vcol(u) for u in range(len(V))], dtype=np.uint8)
    elif visual == "texture":
        # texture coordinates 0.01 apart: distinct at the default 4 digits, equal at 1 digit
        uv = np.array([[u * 0.01, 1 - u * 0.01] for u in range(len(V))])
        m.visual = trimesh.visual.TextureVisuals(uv=uv)
    m.face_attributes["tag"] = np.arange(len(F))
    m.vertex_attributes["vtag"] = np.arange(len(V))
    return m


def face_tags(m, visual, use_attr):
    if visual in ("face", "face_painted") and m.visual.kind == "face":
        c = np.asarray(m.visual.face_colors)
        return (c[:, 0].astype(int) - 10) if len(c) else np.array([], dtype=int)
    if use_attr and "tag" in m.face_attributes and len(m.face_attributes["tag"]) == len(m.faces):
        return np.asarray(m.face_attributes["tag"]).astype(int)
    return None


def vertex_tags(m, visual, use_attr):
    if visual == "vertex" and m.visual.kind == "vertex":
        c = np.asarray(m.visual.vertex_colors)
        return (c[:, 0].astype(int) - 100) if len(c) else np.array([], dtype=int)
    if visual == "texture" and m.visual.kind == "texture" and m.visual.uv is not None and len(m.visual.uv) == len(m.vertices):
        return np.round(np.asarray(m.visual.uv)[:, 0] * 100).astype(int)
    if use_attr and "vtag" in m.vertex_attributes and len(m.vertex_attributes["vtag"]) == len(m.vertices):
        return np.asarray(m.vertex_attributes["vtag"]).astype(int)
    return None


def eq_pos(a, b, tol):
    a, b = np.asarray(a, dtype=float), np.asarray(b, dtype=float)
    if a.shape != b.shape:
        return False
    with np.errstate(invalid="ignore"):
        ok = (np.abs(a - b) <= tol) | (a == b) | (np.isnan(a) & np.isnan(b))
    return bool(ok.all())


def check_result(t, V0, F0, visual, n, key, case, tol=0.0, use_attr=True, expect_face_tags=None, order="increasing", require_all_faces=False):
    """Generic post-conditions for a mesh `n` derived from (V0, F0)."""
    V0 = np.asarray(V0, dtype=float)
    F0 = np.asarray(F0).reshape(-1, 3)
    V1 = np.asarray(n.vertices)
    F1 = np.asarray(n.faces).reshape(-1, 3)

    def bad(what, detail):
        t.violation(f"{key}: {what}", case, detail)
        return False

    if len(F1) and (F1.max() >= len(V1) or F1.min() < 0):
        return bad("faces index a vertex that does not exist", {"faces": F1, "n_vertices": len(V1)})
    if visual in ("face", "face_painted") and len(F1):
        # the colours the result reports for its faces must still be the colours of those faces, whatever
        # representation the visual switched to internally (a per-face value must not come back averaged)
        try:
            c = np.asarray(n.visual.face_colors)
        except Exception as e:
            return bad(f"reading face colours raises {type(e).__name__}", {"exc": repr(e)[:200]})
        ref = None
        if use_attr and "tag" in n.face_attributes and len(n.face_attributes["tag"]) == len(F1):
            ref = np.asarray(n.face_attributes["tag"]).astype(int)
        elif expect_face_tags is not None and len(expect_face_tags) == len(F1):
            ref = np.asarray(list(expect_face_tags), dtype=int)
        if ref is not None and (c.shape[0] != len(F1) or (c[:, 0].astype(int) - 10 != ref).any()):
            return bad("face colours are no longer the colours of the same faces", {"colour_tags": (c[:, 0].astype(int) - 10).tolist() if len(c) else [], "faces": ref.tolist(), "visual_kind": n.visual.kind})
    ft = face_tags(n, visual, use_attr)
    if ft is not None:
        if len(ft) != len(F1):
            return bad("per-face data has a different length than faces", {"faces": len(F1), "data": len(ft)})
        if len(ft) and (ft.min() < 0 or ft.max() >= len(F0)):
            return bad("per-face data does not belong to any original face", {"tags": ft})
        # corner positions
        for i, tg in enumerate(ft.tolist()):
            if not eq_pos(V1[F1[i]], V0[F0[tg]], tol):
                return bad("a surviving triangle has different corner positions than the face its data comes from", {"face": i, "tag": tg, "got": V1[F1[i]], "want": V0[F0[tg]]})
        if use_attr and "tag" in n.face_attributes and len(n.face_attributes["tag"]) == len(F1):
            if not (np.asarray(n.face_attributes["tag"]).astype(int) == ft).all():
                return bad("face_attributes and face colours are attached to different faces", {"attr": n.face_attributes["tag"], "colour_tags": ft})
        if expect_face_tags is not None:
            if ft.tolist() != list(expect_face_tags):
                return bad("surviving faces are not the ones selected, in the expected order", {"got": ft.tolist(), "want": list(expect_face_tags)})
        elif order == "increasing" and (np.diff(ft) <= 0).any():
            return bad("surviving faces are not in their original relative order", {"got": ft.tolist()})
        if require_all_faces and sorted(ft.tolist()) != list(range(len(F0))):
            return bad("a face was lost or duplicated", {"got": ft.tolist()})
    elif expect_face_tags is not None:
        # no per-face data to read tags from: compare triangles directly
        want = V0[F0[list(expect_face_tags)]] if len(expect_face_tags) else np.zeros((0, 3, 3))
        if not eq_pos(V1[F1] if len(F1) else np.zeros((0, 3, 3)), want, tol):
            return bad("surviving triangles are not the ones selected, in the expected order", {"got": V1[F1] if len(F1) else [], "want": want})
    vt = vertex_tags(n, visual, use_attr)
    if vt is not None:
        if len(vt) != len(V1):
            return bad("per-vertex data has a different length than vertices", {})
        if len(vt) and (vt.min() < 0 or vt.max() >= len(V0)):
            return bad("per-vertex data does not belong to any original vertex", {"tags": vt})
        for j, u in enumerate(vt.tolist()):
            if not eq_pos(V1[j], V0[u], tol):
                return bad("a surviving vertex has a different position than the vertex its data comes from", {"vertex": j, "tag": u, "got": V1[j], "want": V0[u]})
        if use_attr and "vtag" in n.vertex_attributes and len(n.vertex_attributes["vtag"]) == len(V1):
            if not (np.asarray(n.vertex_attributes["vtag"]).astype(int) == vt).all():
                return bad("vertex_attributes and vertex colours / uv are attached to different vertices", {"attr": n.vertex_attributes["vtag"], "tags": vt})
    # the normals the mesh now reports (the cached ones, if any survived) must belong to the current triangles
    try:
        fn = n.face_normals
    except Exception:
        fn = None
    if fn is not None and np.shape(fn) == F1.shape and len(F1):
        tri = V1[F1]
        g = np.cross(tri[:, 1] - tri[:, 0], tri[:, 2] - tri[:, 0])
        ln = np.linalg.norm(g, axis=1)
        ok = np.isfinite(ln) & (ln > 1e-9)
        if ok.any() and (np.abs(np.asarray(fn)[ok] - g[ok] / ln[ok][:, None]).max() > 1e-6):
            return bad("stored face normals are attached to different faces", {"normals": fn})
    return True


# ---------------------------------------------------------------------------
# operations
# ---------------------------------------------------------------------------


def masks_for(n):
    """Every boolean mask and every integer mask up to length 3 (with repeats)."""
    out = [("bool", list(b)) for b in itertools.product((False, True), repeat=n)]
    for ln in (1, 2, 3):
        for idx in itertools.product(range(n), repeat=ln):
            out.append(("int", list(idx)))
    return out


def run_ops(t, V, F, visual, cfg, tier):
    import trimesh

    V = np.asarray(V)
    F = np.asarray(F).reshape(-1, 3)
    nf, nv = len(F), len(V)
    finite = np.isfinite(V).all(axis=1)
    base = {"config": cfg, "visual": visual, "vertices": V, "faces": F}

    def fresh(read_normals=False):
        m = build(V, F, visual)
        if read_normals:
            m.face_normals
            m.vertex_normals
        return m

    def guard(name, case, f):
        t.evaluations += 1
        t.nontrivial_count += 1
        try:
            return True, f()
        except Exception as e:
            t.violation(f"{name}: raises {type(e).__name__} [{cfg_class(cfg)}]", case, {"exc": repr(e)[:300]})
            return False, None

    cc = cfg_class(cfg)
    # 1. merge_vertices
    for mt, mn, dg, rn in itertools.product((None, True), (None, True), (None, 0, 4), (False, True)):
        # the digits of the normal / texture part of the merge key, each on its own (texture meshes only)
        for dn, du in ((None, None), (1, None), (None, 6)) if visual == "texture" else ((None, None),):
            case = dict(base, op="merge_vertices", merge_tex=mt, merge_norm=mn, digits=dg, read_normals=rn, digits_norm=dn, digits_uv=du)
            m = fresh(rn)
            kw = {}
            if dn is not None:
                kw["digits_norm"] = dn
            if du is not None:
                kw["digits_uv"] = du
            ok, _ = guard("merge_vertices", case, lambda: m.merge_vertices(merge_tex=mt, merge_norm=mn, digits_vertex=dg, **kw))
            if ok:
                tol = 0.5 * 10.0 ** -(dg if dg is not None else 8) + 1e-12
                if dg == 0:
                    tol = 0.51
                check_result(t, V, F, visual, m, f"merge_vertices [{cc}]", case, tol=tol, require_all_faces=True)
                if visual == "texture" and mt is None and m.visual.kind == "texture" and m.visual.uv is not None:
                    # texture coordinates take part in the merge: every face corner keeps exactly its own
                    F1 = np.asarray(m.faces).reshape(-1, 3)
                    uv1 = np.asarray(m.visual.uv)
                    if len(F1) == len(F) and len(uv1) == len(m.vertices) and len(F1) and F1.max() < len(uv1):
                        got_uv = np.round(uv1[F1][:, :, 0] * 100).astype(int)
                        if not (got_uv == np.asarray(F)).all():
                            t.violation(f"merge_vertices: a face corner takes the texture coordinate of another vertex [{cc}]", case, {"corner_tags": got_uv, "faces": np.asarray(F)})
    # 2. update_faces: all masks
    for kind, mask in masks_for(nf):
        for rn in (False, True):
            case = dict(base, op="update_faces", mask_kind=kind, mask=mask, read_normals=rn)
            m = fresh(rn)
            arr = np.array(mask, dtype=bool if kind == "bool" else np.int64)
            ok, _ = guard("update_faces", case, lambda: m.update_faces(arr))
            if ok:
                exp = [i for i, b in enumerate(mask) if b] if kind == "bool" else mask
                check_result(t, V, F, visual, m, f"update_faces({kind} mask) [{cc}]", case, expect_face_tags=exp)
    # 3. update_vertices: all boolean masks (+ a few integer masks)
    vmasks = [("bool", list(b)) for b in itertools.product((False, True), repeat=nv)]
    vmasks += [("int", list(range(nv))[::-1]), ("int", list(range(1, nv)) + [0]), ("int", list(range(nv - 1)))]
    for kind, mask in vmasks:
        case = dict(base, op="update_vertices", mask_kind=kind, mask=mask)
        m = fresh(False)
        arr = np.array(mask, dtype=bool if kind == "bool" else np.int64)
        kept = set(np.nonzero(arr)[0].tolist()) if kind == "bool" else set(mask)
        ok, _ = guard("update_vertices", case, lambda: m.update_vertices(arr))
        if ok:
            removed_referenced = any(int(v) not in kept for v in F.reshape(-1)) if nf else False
            sub = "removing a referenced vertex" if removed_referenced else "removing only unreferenced vertices"
            if kind == "bool" and not any(mask):
                continue  # an all-False mask empties the mesh; nothing to compare
            check_result(t, V, F, visual, m, f"update_vertices({kind} mask, {sub}) [{cc}]", case)
    # 4. cleaners
    cleaners = {
        "remove_unreferenced_vertices": lambda m: m.remove_unreferenced_vertices(),
        "unmerge_vertices": lambda m: m.unmerge_vertices(),
        "remove_infinite_values": lambda m: m.remove_infinite_values(),
        "update_faces(unique_faces)": lambda m: m.update_faces(m.unique_faces()),
        "update_faces(nondegenerate_faces)": lambda m: m.update_faces(m.nondegenerate_faces()),
        "process(validate=False)": lambda m: m.process(validate=False),
        "process(validate=True)": lambda m: m.process(validate=True),
    }
    for name, f in cleaners.items():
        for rn in (False, True):
            case = dict(base, op=name, read_normals=rn)
            m = fresh(rn)
            ok, _ = guard(name, case, lambda: f(m))
            if not ok:
                continue
            # validate=True may re-wind faces (fix_normals): then corner *sets* are compared
            if name == "process(validate=True)":
                check_rewound(t, V, F, visual, m, f"{name} [{cc}]", case)
                continue
            res = check_result(t, V, F, visual, m, f"{name} [{cc}]", case, tol=1e-8, require_all_faces=name in ("remove_unreferenced_vertices", "unmerge_vertices") )
            if res and name in ("remove_infinite_values", "process(validate=False)"):
                V1 = np.asarray(m.vertices)
                if len(V1) and not np.isfinite(V1).all():
                    t.violation(f"{name}: non-finite vertices survive [{cc}]", case, {"vertices": V1})
                ft = face_tags(m, visual, True)
                want = [i for i in range(nf) if finite[F[i]].all()]
                if ft is not None and sorted(ft.tolist()) != want:
                    t.violation(f"{name}: the surviving faces are not exactly those with finite corners [{cc}]", case, {"got": ft.tolist(), "want": want})
    # 5. submesh / split / concatenate (finite meshes only make sense here)
    if nf:
        seqs = []
        for r in range(1, nf + 1):
            for idx in itertools.permutations(range(nf), r):
                seqs.append([list(idx)])
        if nf >= 2:
            seqs.append([[0], [1]])
            seqs.append([[1], [0]])
            seqs.append([[0, 1], [0]])
        for seq in seqs:
            for append in (False, True):
                case = dict(base, op="submesh", sequence=seq, append=append)
                m = fresh(False)
                ok, res = guard("submesh", case, lambda: m.submesh(seq, append=append, repair=False))
                if not ok:
                    continue
                if append:
                    exp = [i for s in seq for i in s]
                    check_result(t, V, F, visual, res, f"submesh(append=True) [{cc}]", case, use_attr=False, expect_face_tags=exp)
                else:
                    if len(res) != len(seq):
                        t.violation(f"submesh: number of results differs from number of index sequences [{cc}]", case, {"got": len(res)})
                        continue
                    for part, s in zip(res, seq):
                        if not check_result(t, V, F, visual, part, f"submesh(append=False) [{cc}]", case, use_attr=False, expect_face_tags=s):
                            break
                # the source is untouched
                if not eq_pos(m.vertices, V, 0) or not (np.asarray(m.faces) == F).all():
                    t.violation(f"submesh modifies the source mesh [{cc}]", case, {})
        if finite.all():
            for eng in ("scipy", "networkx"):
                case = dict(base, op="split+concatenate", engine=eng)
                m = fresh(False)
                ok, parts = guard("split", case, lambda: m.split(only_watertight=False, repair=False, engine=eng))
                if ok:
                    for part in parts:
                        if not check_result(t, V, F, visual, part, f"split [{cc}]", case, use_attr=False):
                            break
                    else:
                        ok2, cat = guard("concatenate", case, lambda: trimesh.util.concatenate(list(parts)) if len(parts) else None)
                        if ok2:
                            got = sorted(map(lambda tr: tuple(map(tuple, tr)), (np.asarray(cat.triangles).tolist() if cat is not None and len(parts) else [])))
                            want = sorted(map(lambda tr: tuple(map(tuple, tr)), V[F].tolist()))
                            if got != want:
                                t.violation(f"split then concatenate does not reproduce the triangle multiset [{cc}]", case, {"n_got": len(got), "n_want": len(want)})
                            elif cat is not None and len(parts):
                                check_result(t, V, F, visual, cat, f"concatenate(split parts) [{cc}]", case, use_attr=False, order="any")
        check_concat_faceless(t, V, F, visual, base, cc, build, guard)
        # concatenate two tagged meshes: second one's tags shifted
        case = dict(base, op="concatenate")
        a, b = fresh(False), build(V + 10.0, F, visual)
        ok, cat = guard("concatenate", case, lambda: a + b)
        if ok:
            V2 = np.vstack([V, V + 10.0])
            F2 = np.vstack([F, F + nv])
            F1 = np.asarray(cat.faces)
            if len(F1) != 2 * nf or not eq_pos(np.asarray(cat.vertices)[F1], V2[F2], 0):
                t.violation(f"concatenate: triangles differ from the two inputs stacked [{cc}]", case, {})
            elif visual in ("face", "face_painted") and cat.visual.kind == "face":
                c = np.asarray(cat.visual.face_colors)
                if c[:, 0].tolist() != [10 + i for i in range(nf)] * 2:
                    t.violation(f"concatenate: face colours are attached to different faces [{cc}]", case, {"got": c[:, 0].tolist()})
            elif visual == "vertex" and cat.visual.kind == "vertex":
                c = np.asarray(cat.visual.vertex_colors)
                if c[:, 0].tolist() != [100 + i for i in range(nv)] * 2:
                    t.violation(f"concatenate: vertex colours are attached to different vertices [{cc}]", case, {"got": c[:, 0].tolist()})


def check_concat_faceless(t, V, F, visual, base, cc, build, guard):
    """concatenate with a member that has vertices but no faces, in every position."""
    import trimesh

    nv, nf = len(V), len(F)
    a, b = build(V, F, visual), build(V + 10.0, F, visual)
    lone = trimesh.Trimesh(vertices=V[:2] + 20.0, faces=np.zeros((0, 3), dtype=np.int64), process=False)
    for pos in (0, 1, 2):
        members = [a.copy(), b.copy()]
        members.insert(pos, lone.copy())
        case = dict(base, op="concatenate with a faceless member", position=pos)
        ok, cat = guard("concatenate", case, lambda: trimesh.util.concatenate(members))
        if not ok:
            continue
        want = np.vstack([V[F], (V + 10.0)[F]])
        F1 = np.asarray(cat.faces)
        got = np.asarray(cat.vertices)[F1] if len(F1) else np.zeros((0, 3, 3))
        if got.shape != want.shape or not eq_pos(got, want, 0):
            t.violation(f"concatenate with a member that has vertices but no faces moves triangles [{cc}]", case, {"n_got": len(got), "n_want": len(want)})


def check_rewound(t, V, F, visual, m, key, case):
    """After process(validate=True): faces may be re-wound, duplicates/degenerates dropped; corners as sets."""
    V1, F1 = np.asarray(m.vertices), np.asarray(m.faces).reshape(-1, 3)
    if len(F1) and (F1.max() >= len(V1) or F1.min() < 0):
        t.violation(f"{key}: faces index a vertex that does not exist", case, {})
        return
    ft = face_tags(m, visual, True)
    if ft is None:
        return
    if len(ft) != len(F1):
        t.violation(f"{key}: per-face data has a different length than faces", case, {})
        return
    for i, tg in enumerate(ft.tolist()):
        a = sorted(map(tuple, np.round(V1[F1[i]], 7).tolist()))
        b = sorted(map(tuple, np.round(np.asarray(V, dtype=float)[F[tg]], 7).tolist()))
        if a != b:
            t.violation(f"{key}: a surviving triangle has different corners than the face its data comes from", case, {"got": a, "want": b})
            return
    if (np.diff(ft) <= 0).any():
        t.violation(f"{key}: surviving faces are not in their original relative order", case, {"got": ft.tolist()})


def cfg_class(cfg):
    """Key granularity: one class per kind of special vertex, not per configuration."""
    if "nan" in cfg or "inf" in cfg:
        return "mesh with non-finite vertex"
    if "duplicate" in cfg:
        return "mesh with duplicated vertex"
    return "clean mesh"


# ---------------------------------------------------------------------------


def _w(task):
    cfg, visual, nf, sl, nsl, tier = task
    t = harness.Tally()
    V = vertex_configs()[cfg]
    alpha = face_alphabet(len(V))
    k = 0
    if nf == 2 and tier == "quick":
        # quick: first face from 4 representatives (two windings, a face on other vertices, a degenerate one)
        gen = itertools.product([(0, 1, 2), (0, 2, 1), (1, 2, 3), (0, 0, 1)], alpha)
    else:
        gen = itertools.product(alpha, repeat=nf)
    for faces in gen:
        k += 1
        if k % nsl != sl:
            continue
        run_ops(t, V, np.array(faces, dtype=np.int64).reshape(-1, 3), visual, cfg, tier)
        if k % 211 == 0:
            t.sample({"config": cfg, "visual": visual, "faces": [list(f) for f in faces]}, limit=1)
    return t


def tasks_for(tier):
    tasks = []
    cfgs = list(vertex_configs())
    for cfg in cfgs:
        for visual in ("face", "vertex", "texture", "face_painted"):
            tasks.append((cfg, visual, 1, 0, 1, tier))
            nsl = 64 if tier == "thorough" else 4
            for sl in range(nsl):
                tasks.append((cfg, visual, 2, sl, nsl, tier))
    return tasks


def replay(case):
    t = harness.Tally()
    V = np.array([[float(x) if x not in ("nan", "inf", "-inf") else {"nan": np.nan, "inf": np.inf, "-inf": -np.inf}[x] for x in row] for row in case["vertices"]])
    run_ops(t, V, np.array(case["faces"], dtype=np.int64).reshape(-1, 3), case["visual"], case["config"], "thorough")
    return [(k, d) for k, c, d in t.violations]


def main(run):
    tasks = tasks_for(run.tier)
    run.log(f"{len(tasks)} tasks")
    res = harness.pmap(_w, tasks)
    run.merge(res)
    cov = {
        "exhaustive": True,
        "rule": "vertex configurations (clean, exact / near / far duplicate, NaN, inf) x every sequence of 1 and 2 faces over the face alphabet (all ordered non-degenerate triples + one degenerate per vertex) x visual kind (face colours, vertex colours, texture) x operations (merge_vertices option product, update_faces with every boolean and every integer mask up to length 3, update_vertices with every boolean mask, cleaners, submesh over every index sequence, split+concatenate with both engines, concatenate); tags carried in colours/uv and attributes",
        "tasks": len(tasks),
    }
    return run.finish(cov, assumptions=[
        "merge tolerance = half a unit of the requested digits (default 1e-8)",
        "process(validate=True) may re-wind faces: corner sets are compared there",
    ])
