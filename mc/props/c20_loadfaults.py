"""
C20 - loading arbitrary or corrupted bytes terminates with a clean outcome.

Engine E3 (fault enumeration): for a small valid file of every format, EVERY truncation
point, EVERY single-byte fault from a fixed byte alphabet at EVERY offset, every numeric
token / header integer replaced by extreme values, every swap and duplication of aligned
chunks, splices of two valid files on a grid (and pairs of byte faults on a stride in the
thorough tier), each loaded through trimesh.load / load_mesh / load_scene / load_path from
a file object and from a path on disk, inside resource-limited worker processes.
Outcome must be: geometry returned or an ordinary Exception, within the time and memory
bounds, interpreter alive, and every file the loader opened itself closed again.
"""

import io
import os
import re
import shutil
import struct
import tempfile

import numpy as np

from mc.core import harness, sandbox

LEVEL = "fault_enumeration"

BYTE_ALPHABET = [0x00, 0xFF, 0x20, 0x0A, ord("0"), ord("9"), ord("-"), ord("."), ord("{")]
EXTREME = [b"0", b"-1", b"2147483647", b"4294967295", b"1000000000000"]


# ---------------------------------------------------------------------------
# seeds: the smallest valid files the exporters produce
# ---------------------------------------------------------------------------


XAML_SEED = b"""<Viewport3D xmlns="http://schemas.microsoft.com/winfx/2006/xaml/presentation">
<ModelVisual3D>
<ModelVisual3D.Transform><MatrixTransform3D Matrix="1 0 0 0 0 1 0 0 0 0 1 0 1 2 3 1"/></ModelVisual3D.Transform>
<ModelVisual3D.Content>
<GeometryModel3D>
<GeometryModel3D.Material><MaterialGroup><DiffuseMaterial><DiffuseMaterial.Brush><SolidColorBrush Color="#FF8040" Opacity="1.0"/></DiffuseMaterial.Brush></DiffuseMaterial></MaterialGroup></GeometryModel3D.Material>
<GeometryModel3D.Geometry><MeshGeometry3D Normals="0 0 1 0 0 1 0 0 1" Positions="0 0 0 1 0 0 0 1 0" TriangleIndices="0 1 2"/></GeometryModel3D.Geometry>
</GeometryModel3D>
</ModelVisual3D.Content>
</ModelVisual3D>
</Viewport3D>
"""


_3DXML_MANIFEST = b'<Manifest><Root>scene.3dxml</Root></Manifest>'
_3DXML_SCENE = b'''<Model_3dxml xmlns="http://www.3ds.com/xsd/3DXML">
<ProductStructure root="1">
<Reference3D id="1" name="root"/>
<Reference3D id="2" name="part"/>
<Instance3D id="3" name="inst"><IsAggregatedBy>1</IsAggregatedBy><IsInstanceOf>2</IsInstanceOf><RelativeMatrix>1 0 0 0 1 0 0 0 1 1 2 3</RelativeMatrix></Instance3D>
<ReferenceRep id="4" name="rep" format="TESSELLATED" associatedFile="urn:3DXML:rep.3DRep"/>
<InstanceRep id="5" name="irep"><IsAggregatedBy>2</IsAggregatedBy><IsInstanceOf>4</IsInstanceOf></InstanceRep>
</ProductStructure>
</Model_3dxml>'''
_3DXML_REP = b'''<XMLRepresentation xmlns="http://www.3ds.com/xsd/3DXML"><Root><Rep><Faces><Face triangles="0 1 2" strips="0 1 2 1"/></Faces><VertexBuffer><Positions>0 0 0,1 0 0,0 1 0</Positions><Normals>0 0 1,0 0 1,0 0 1</Normals></VertexBuffer></Rep></Root></XMLRepresentation>'''


def seeds():
    import trimesh

    tri = trimesh.Trimesh(vertices=[[0, 0, 0], [1, 0, 0], [0, 1, 0.5]], faces=[[0, 1, 2]], process=False)
    tet = trimesh.Trimesh(vertices=[[0, 0, 0], [1, 0, 0], [0, 1, 0], [0, 0, 1]], faces=[[0, 2, 1], [0, 1, 3], [1, 2, 3], [0, 3, 2]], process=False)
    tet.visual.face_colors = np.array([[255, 0, 0, 255], [0, 255, 0, 255], [0, 0, 255, 255], [9, 9, 9, 255]], dtype=np.uint8)
    sc = trimesh.Scene()
    sc.add_geometry(tri, node_name="a", geom_name="tri")
    m = np.eye(4)
    m[:3, 3] = [1, 2, 3]
    sc.graph.update(frame_to="b", frame_from="a", matrix=m, geometry="tri")
    out = {}

    def b(x):
        return x if isinstance(x, bytes) else x.encode("utf-8")

    out["stl"] = ("stl", b(tri.export(file_type="stl")))
    out["stl_ascii"] = ("stl", b(tri.export(file_type="stl_ascii")))
    # a valid multi-solid ascii file whose first solid is empty
    out["stl_ascii_two_solids"] = ("stl", b"solid a\nendsolid a\n" + b(tri.export(file_type="stl_ascii")))
    out["ply"] = ("ply", b(tet.export(file_type="ply")))
    out["ply_ascii"] = ("ply", b(tri.export(file_type="ply", encoding="ascii")))
    out["off"] = ("off", b(tri.export(file_type="off")))
    out["obj"] = ("obj", b(tri.export(file_type="obj")))
    out["glb"] = ("glb", b(sc.export(file_type="glb")))
    g = sc.export(file_type="gltf", embed_buffers=True)
    out["gltf"] = ("gltf", b(g["model.gltf"]))
    out["3mf"] = ("3mf", b(tri.export(file_type="3mf")))
    try:
        out["dae"] = ("dae", b(tri.export(file_type="dae")))
    except Exception:
        pass
    out["xyz"] = ("xyz", b(trimesh.PointCloud(tri.vertices).export(file_type="xyz")))
    from trimesh.path import Path2D
    from trimesh.path.entities import Arc, Line

    p2 = Path2D(entities=[Line([0, 1, 2, 0]), Arc([3, 4, 5])], vertices=np.array([[0, 0], [2, 0], [0, 2], [3, 0], [4, 1], [5, 0]], dtype=float), process=False)
    out["dxf"] = ("dxf", b(p2.export(file_type="dxf")))
    out["svg"] = ("svg", b(p2.export(file_type="svg")))
    from trimesh.voxel import VoxelGrid

    vg = VoxelGrid(np.array([[[1, 0], [0, 1]], [[0, 0], [1, 1]]], dtype=bool))
    out["binvox"] = ("binvox", b(trimesh.exchange.binvox.export_binvox(vg)))
    out["xaml"] = ("xaml", XAML_SEED)
    # archive with one stl inside
    import zipfile

    zb = io.BytesIO()
    with zipfile.ZipFile(zb, "w", zipfile.ZIP_DEFLATED) as z:
        zi = zipfile.ZipInfo("tri.stl", date_time=(2020, 1, 1, 0, 0, 0))
        zi.compress_type = zipfile.ZIP_DEFLATED
        z.writestr(zi, tri.export(file_type="stl"))
    out["zip"] = ("zip", zb.getvalue())
    # the same archive without compression: faults reach the member's bytes, not only the deflate stream
    zb = io.BytesIO()
    with zipfile.ZipFile(zb, "w", zipfile.ZIP_STORED) as z:
        zi = zipfile.ZipInfo("tri.stl", date_time=(2020, 1, 1, 0, 0, 0))
        z.writestr(zi, tri.export(file_type="stl"))
    out["zip_stored"] = ("zip", zb.getvalue())
    # hand-written minimal 3DXML (a stored zip of three xml members: manifest, product structure, tessellated rep)
    zb = io.BytesIO()
    with zipfile.ZipFile(zb, "w", zipfile.ZIP_STORED) as z:
        for n3, d3 in (("Manifest.xml", _3DXML_MANIFEST), ("scene.3dxml", _3DXML_SCENE), ("rep.3DRep", _3DXML_REP)):
            z.writestr(zipfile.ZipInfo(n3, date_time=(2020, 1, 1, 0, 0, 0)), d3)
    out["3dxml"] = ("3dxml", zb.getvalue())
    if "dae" in out:
        zb = io.BytesIO()
        with zipfile.ZipFile(zb, "w", zipfile.ZIP_DEFLATED) as z:
            zi = zipfile.ZipInfo("tri.dae", date_time=(2020, 1, 1, 0, 0, 0))
            zi.compress_type = zipfile.ZIP_DEFLATED
            z.writestr(zi, out["dae"][1])
        out["zae"] = ("zae", zb.getvalue())
    import gzip
    import tarfile

    tb = io.BytesIO()
    with tarfile.open(fileobj=tb, mode="w") as tf_:
        ti = tarfile.TarInfo("tri.off")
        payload = b(tri.export(file_type="off"))
        ti.size = len(payload)
        tf_.addfile(ti, io.BytesIO(payload))
    out["tar.gz"] = ("tar.gz", gzip.compress(tb.getvalue(), mtime=0))
    return out


# ---------------------------------------------------------------------------
# fault enumeration
# ---------------------------------------------------------------------------


def is_text(data):
    return all(32 <= c < 127 or c in (9, 10, 13) for c in data[:200])


def faults(name, data, tier, second=None):
    """Yield (fault class, mutated bytes).  Deterministic order."""
    n = len(data)
    # seeds above 1500 bytes (template-heavy text formats: dxf, dae) are enumerated on a fixed grid in the
    # quick tier: every 4th truncation point, byte faults at every 16th offset; thorough: every offset
    big = n > 1500 and tier == "quick"
    # (0) the valid file itself (must load; the success path of the file handling)
    yield "unmodified", data
    # (1) every truncation
    for i in range(0, n, 4 if big else 1):
        yield "truncation", data[:i]
    # (2) every offset x byte alphabet (+ two bit flips)
    for i in range(0, n, 16 if big else 1):
        x = data[i]
        for v in BYTE_ALPHABET + [x ^ 0x01, x ^ 0x80]:
            if v != x:
                yield "byte fault", data[:i] + bytes([v]) + data[i + 1 :]
    # (3) numeric tokens of text / integer fields of binary headers
    if is_text(data):
        for mt in re.finditer(rb"(?<![\w.])-?\d+(?:\.\d+)?(?:[eE][-+]?\d+)?", data):
            for e in EXTREME:
                yield "numeric token substituted", data[: mt.start()] + e + data[mt.end() :]
            if tier == "quick" and mt.start() > 1500:
                break
    else:
        lim = min(n - 3, 160)
        for i in range(0, lim, 4):
            for v in (0, 0xFFFFFFFF, 0x7FFFFFFF, 0x80000000, 1, n, n * 1000):
                yield "header integer substituted", data[:i] + struct.pack("<I", v & 0xFFFFFFFF) + data[i + 4 :]
        # text header of binary formats (ply, binvox)
        head_end = data.find(b"end_header")
        if head_end < 0:
            head_end = data.find(b"data\n")
        if head_end > 0:
            for mt in re.finditer(rb"(?<![\w.])\d+", data[:head_end]):
                for e in EXTREME:
                    yield "numeric token substituted", data[: mt.start()] + e + data[mt.end() :]
    # (4) swaps / duplications of aligned chunks
    if is_text(data):
        lines = data.split(b"\n")
        L = len(lines)
        step = 1 if L <= 40 else max(1, L // 40)
        for i in range(0, L, step):
            for j in range(i + 1, L, step):
                sw = lines[:]
                sw[i], sw[j] = sw[j], sw[i]
                yield "lines swapped", b"\n".join(sw)
            yield "line duplicated", b"\n".join(lines[: i + 1] + [lines[i]] + lines[i + 1 :])
            yield "line removed", b"\n".join(lines[:i] + lines[i + 1 :])
    else:
        for size in (4, 16):
            chunks = [data[k : k + size] for k in range(0, n, size)]
            C = len(chunks)
            step = 1 if C <= 48 else max(1, C // 48)
            for i in range(0, C, step):
                for j in range(i + 1, C, step):
                    sw = chunks[:]
                    sw[i], sw[j] = sw[j], sw[i]
                    yield "chunks swapped", b"".join(sw)
                yield "chunk duplicated", b"".join(chunks[: i + 1] + [chunks[i]] + chunks[i + 1 :])
    # (5) splices with a second valid file
    if second is not None:
        for i in range(0, n, 16):
            for j in range(0, len(second), 16):
                yield "splice of two files", data[:i] + second[j:]
    # (6) thorough: pairs of byte faults on a stride-7 grid
    if tier == "thorough":
        offs = list(range(0, n, 7))
        for a in range(len(offs)):
            for b2 in range(a + 1, len(offs), 3):
                i, j = offs[a], offs[b2]
                d = bytearray(data)
                d[i] = 0xFF
                d[j] = 0x00
                yield "two byte faults", bytes(d)


# ---------------------------------------------------------------------------
# growth: "within a bound proportional to the input size"
# ---------------------------------------------------------------------------

GROWTH_BYTES = {"quick": 48 * 1024, "thorough": 128 * 1024}  # size of the smaller inflated file; the larger one has 4x the repeats
GROWTH_SOFT, GROWTH_HARD = 30.0, 90.0  # seconds: the inflated files are 0.2 - 0.5 MB, the bound scales with the input


def units(data, tier):
    """Every contiguous range of lines (text) / aligned 16-byte chunks (binary) that is repeated in place."""
    if is_text(data):
        parts = data.split(b"\n")
        parts = [x + b"\n" for x in parts[:-1]] + ([parts[-1]] if parts[-1] else [])
    else:
        parts = [data[k : k + 16] for k in range(0, len(data), 16)]
    L = len(parts)
    if L <= 16:
        span, step = L, 1
    elif L <= 60 or tier == "thorough":
        span, step = 3, 1
    else:
        span, step = 2, max(1, L // 60)
    seen = set()
    for i in range(0, L, step):
        for j in range(i + 1, min(L, i + span) + 1):
            seen.add((i, j))
            yield parts, i, j
    # the first and the last unit are always included (the last one has no line end: repeated it is one long line)
    for i, j in ((0, 1), (L - 1, L)):
        if L and (i, j) not in seen:
            yield parts, i, j


def inflate(parts, i, j, k):
    return b"".join(parts[:i]) + b"".join(parts[i:j]) * k + b"".join(parts[j:])


def growth_specs(data, tier):
    out = []
    for parts, i, j in units(data, tier):
        unit = sum(len(x) for x in parts[i:j])
        if unit == 0:
            continue
        k = max(2, -(-GROWTH_BYTES[tier] // unit))
        out.append((i, j, k))
    return out


def materialize(blob):
    """A case carries either the bytes or a compact ("inflate", seed bytes, text?, i, j, k) description."""
    if isinstance(blob, (bytes, bytearray)):
        return blob
    _, data, i, j, k = blob
    if is_text(data):
        parts = data.split(b"\n")
        parts = [x + b"\n" for x in parts[:-1]] + ([parts[-1]] if parts[-1] else [])
    else:
        parts = [data[q : q + 16] for q in range(0, len(data), 16)]
    return inflate(parts, i, j, k)


def growth_verdict(small, big):
    """CPU seconds of the load at k and at 4k repeats: more than 10x for 4x the input is super-linear
    (n log n gives ~4.5x, quadratic 16x); tiny absolute times are not judged."""
    return big > 0.15 and big > 10.0 * max(small, 0.012)


def _w_growth(task):
    name, ft, data, tier, route, lo, hi = task
    global _SCRATCH
    t = harness.Tally()
    _SCRATCH = tempfile.mkdtemp(prefix="c20_")
    try:
        specs = growth_specs(data, tier)[lo:hi]
        cases = []
        for i, j, k in specs:
            cases.append((ft, route, "fileobj", ("inflate", data, i, j, k)))
            cases.append((ft, route, "fileobj", ("inflate", data, i, j, 4 * k)))
        res = sandbox.run_cases(_load_case, cases, soft=GROWTH_SOFT, hard=GROWTH_HARD)
        for n, (i, j, k) in enumerate(specs):
            a, b2 = res[2 * n], res[2 * n + 1]
            if a and b2 and growth_verdict(a["cpu"], b2["cpu"]):
                # measure the pair twice more: the verdict uses the fastest large and the slowest small run
                more = sandbox.run_cases(_load_case, cases[2 * n : 2 * n + 2] * 2, soft=GROWTH_SOFT, hard=GROWTH_HARD)
                if all(more):
                    a = dict(a, cpu=max(a["cpu"], more[0]["cpu"], more[2]["cpu"]))
                    b2 = dict(b2, cpu=min(b2["cpu"], more[1]["cpu"], more[3]["cpu"]))
            t.evaluations += 2
            t.stats["fault class:range repeated (growth pair)"] += 1
            case = {"format": name, "file_type": ft, "route": route, "via": "fileobj", "fault": "range repeated", "data": data, "range": [i, j], "repeats": k}
            bad = None
            for r in (a, b2):
                kind, extra = r["outcome"] if r else ("none", None)
                t.stats[f"outcome:{kind}"] += 1
                if kind in ("timeout", "hard_timeout"):
                    bad = f"loading does not finish within the time bound [{name}; range repeated]"
                elif kind == "memory_error":
                    bad = f"loading exhausts memory (2 GiB cap) [{name}; range repeated]"
                elif kind == "crash":
                    bad = f"loading kills the interpreter (exit {extra}) [{name}; range repeated]"
                elif kind == "base_exception":
                    bad = f"loading raises {extra}, not an ordinary exception [{name}; range repeated]"
            if bad is None and a and b2 and growth_verdict(a["cpu"], b2["cpu"]):
                bad = f"loading time grows faster than the input [{name}; range repeated]"
            if a and b2 and a["outcome"][0] in ("ok", "exception"):
                t.nontrivial.add(harness.short_hash((name, "growth", i, j, a["outcome"])))
            if bad:
                t.violation(bad, case, {"cpu_s_at_k": a and a["cpu"], "cpu_s_at_4k": b2 and b2["cpu"], "repeats": k, "range": [i, j], "bytes_at_4k": len(materialize(("inflate", data, i, j, 4 * k)))})
    finally:
        shutil.rmtree(_SCRATCH, ignore_errors=True)
    return t


# ---------------------------------------------------------------------------
# the sandboxed function
# ---------------------------------------------------------------------------

_SCRATCH = None


def _load_case(case):
    """Executed inside the sandbox worker."""
    import trimesh

    ft, route, via, blob = case
    blob = materialize(blob)
    if via in ("path", "path+type"):
        fd, path = tempfile.mkstemp(suffix="." + ft, dir=_SCRATCH)
        with os.fdopen(fd, "wb") as f:
            f.write(blob)
        try:
            return _call(trimesh, route, path, ft if via == "path+type" else None)
        finally:
            try:
                os.remove(path)
            except OSError:
                pass
    else:
        return _call(trimesh, route, io.BytesIO(blob), ft)


def _call(trimesh, route, obj, ft):
    kw = {} if ft is None else {"file_type": ft}
    if route == "load":
        return trimesh.load(obj, **kw)
    elif route == "load_mesh":
        return trimesh.load_mesh(obj, **kw)
    elif route == "load_scene":
        return trimesh.load_scene(obj, **kw)
    else:
        return trimesh.load_path(obj, **kw)


ROUTES = {
    "dxf": ["load", "load_path"],
    "svg": ["load", "load_path"],
}


def _w(task):
    name, ft, data, second, tier, route, via, lo, hi = task
    global _SCRATCH
    t = harness.Tally()
    _SCRATCH = tempfile.mkdtemp(prefix="c20_")
    try:
        import itertools

        allf = list(itertools.islice(faults(name, data, tier, second), lo, hi))
        cases = [(ft, route, via, blob) for _, blob in allf]
        # the unmodified file must load: otherwise the seed is useless
        res = sandbox.run_cases(_load_case, cases)
        n = len(data)
        budget = max(2.0, 2e-3 * n)
        for (fclass, blob), r in zip(allf, res):
            t.evaluations += 1
            if r is None:
                t.violation("harness: no result for a case", {"format": name, "route": route, "via": via, "fault": fclass, "data": blob}, {})
                continue
            kind, extra = r["outcome"]
            t.stats[f"outcome:{kind}"] += 1
            t.stats[f"fault class:{fclass}"] += 1
            t.stats[f"via:{via}"] += 1
            if fclass == "unmodified" and kind != "ok":
                t.violation(f"harness: the valid {name} file does not load ({kind} {extra})", {"format": name, "file_type": ft, "route": route, "via": via, "fault": fclass, "data": blob}, {})
                continue
            if kind == "exception":
                t.nontrivial.add(harness.short_hash((name, fclass, extra)))
            case = {"format": name, "file_type": ft, "route": route, "via": via, "fault": fclass, "data": blob}
            cls = f"{name}; {fclass}; {route} via {via}"
            if kind in ("timeout", "hard_timeout"):
                t.violation(f"loading does not finish within the time bound [{name}; {fclass}]", case, {"seconds": r["wall"], "route": route, "via": via})
            elif kind == "memory_error":
                t.violation(f"loading exhausts memory (2 GiB cap) [{name}; {fclass}]", case, {"route": route, "via": via})
            elif kind == "crash":
                t.violation(f"loading kills the interpreter (exit {extra}) [{name}; {fclass}]", case, {"route": route, "via": via})
            elif kind == "base_exception":
                t.violation(f"loading raises {extra}, not an ordinary exception [{name}; {fclass}]", case, {"route": route, "via": via})
            else:
                if r["cpu"] > budget:
                    t.violation(f"loading takes CPU time out of proportion to the input [{name}; {fclass}]", case, {"cpu_s": r["cpu"], "bytes": len(blob), "route": route, "via": via})
                if r["peak_rss_growth_kb"] > 256 * 1024:
                    t.violation(f"loading uses memory out of proportion to the input [{name}; {fclass}]", case, {"peak_growth_mb": r["peak_rss_growth_kb"] / 1024, "bytes": len(blob), "route": route, "via": via})
                if via != "fileobj" and r["leaked_fds"]:
                    t.violation(f"a file the loader opened itself is left open after {'an exception' if kind == 'exception' else 'success'} [{name}]", case, {"via": via, "leaked": r["leaked_fds"][:3], "fault": fclass, "route": route})
        t.sample({"format": name, "route": route, "via": via, "cases": len(allf), "first_fault": allf[0][0] if allf else None}, limit=1)
    finally:
        shutil.rmtree(_SCRATCH, ignore_errors=True)
    return t


def replay(case):
    global _SCRATCH
    data = harness.unjson_bytes(case["data"])
    if case.get("fault") == "range repeated":
        i, j = case["range"]
        k = case["repeats"]
        # the pair is measured twice; the verdict must hold both times
        keys = None
        for _ in range(2):
            tt = _w_growth_one(case["format"], case["file_type"], data, case["route"], i, j, k)
            ks = {kk for kk, c, d in tt.violations}
            keys = ks if keys is None else keys & ks
        return [(kk, {}) for kk in sorted(keys)]
    t = harness.Tally()
    _SCRATCH = tempfile.mkdtemp(prefix="c20_")
    try:
        n = len(data)
        res = sandbox.run_cases(_load_case, [(case["file_type"], case["route"], case["via"], data)])
        r = res[0]
        kind, extra = r["outcome"]
        name, fclass = case["format"], case["fault"]
        if kind in ("timeout", "hard_timeout"):
            t.violation(f"loading does not finish within the time bound [{name}; {fclass}]", case, {})
        elif kind == "memory_error":
            t.violation(f"loading exhausts memory (2 GiB cap) [{name}; {fclass}]", case, {})
        elif kind == "crash":
            t.violation(f"loading kills the interpreter (exit {extra}) [{name}; {fclass}]", case, {})
        elif kind == "base_exception":
            t.violation(f"loading raises {extra}, not an ordinary exception [{name}; {fclass}]", case, {})
        else:
            if r["cpu"] > max(2.0, 2e-3 * n):
                t.violation(f"loading takes CPU time out of proportion to the input [{name}; {fclass}]", case, {})
            if r["peak_rss_growth_kb"] > 256 * 1024:
                t.violation(f"loading uses memory out of proportion to the input [{name}; {fclass}]", case, {})
            if case["via"] != "fileobj" and r["leaked_fds"]:
                t.violation(f"a file the loader opened itself is left open after {'an exception' if kind == 'exception' else 'success'} [{name}]", case, {})
    finally:
        shutil.rmtree(_SCRATCH, ignore_errors=True)
    return [(k, d) for k, c, d in t.violations]


def _w_growth_one(name, ft, data, route, i, j, k):
    global _SCRATCH
    t = harness.Tally()
    _SCRATCH = tempfile.mkdtemp(prefix="c20_")
    try:
        cases = [(ft, route, "fileobj", ("inflate", data, i, j, k)), (ft, route, "fileobj", ("inflate", data, i, j, 4 * k))]
        a, b2 = sandbox.run_cases(_load_case, cases, soft=GROWTH_SOFT, hard=GROWTH_HARD)
        case = {"format": name}
        for r in (a, b2):
            kind, extra = r["outcome"]
            if kind in ("timeout", "hard_timeout"):
                t.violation(f"loading does not finish within the time bound [{name}; range repeated]", case, {})
            elif kind == "memory_error":
                t.violation(f"loading exhausts memory (2 GiB cap) [{name}; range repeated]", case, {})
            elif kind == "crash":
                t.violation(f"loading kills the interpreter (exit {extra}) [{name}; range repeated]", case, {})
            elif kind == "base_exception":
                t.violation(f"loading raises {extra}, not an ordinary exception [{name}; range repeated]", case, {})
        if not t.violations and growth_verdict(a["cpu"], b2["cpu"]):
            t.violation(f"loading time grows faster than the input [{name}; range repeated]", case, {})
    finally:
        shutil.rmtree(_SCRATCH, ignore_errors=True)
    return t


def main(run):
    tier = run.tier
    S = seeds()
    names = list(S)
    tasks = []
    total = 0
    for k, name in enumerate(names):
        ft, data = S[name]
        # splice partner: the next seed of another format (quick: only for binary formats)
        second = S[names[(k + 1) % len(names)]][1]
        nfaults = sum(1 for _ in faults(name, data, tier, second))
        routes = ROUTES.get(ft, ["load", "load_mesh", "load_scene"] if tier == "thorough" else ["load"])
        vias = ["fileobj", "path"]
        if ft in ("json",):
            vias = ["fileobj", "path"]
        for route in routes:
            for via in vias:
                # quick: the path route only runs truncations + a stride of byte faults (file handling is the point there)
                chunk = 1500
                for lo in range(0, nfaults, chunk):
                    tasks.append((name, ft, data, second, tier, route, via, lo, min(nfaults, lo + chunk)))
                total += nfaults
            # by path with an explicit file type: the valid file and every truncation (the file handling is the point)
            ntr = 1 + sum(1 for f, _ in faults(name, data, tier, None) if f == "truncation")
            for lo in range(0, ntr, 1500):
                tasks.append((name, ft, data, second, tier, route, "path+type", lo, min(ntr, lo + 1500)))
            total += ntr
    strided = [k for k, v in S.items() if len(v[1]) > 1500 and tier == "quick"]
    run.log(f"{len(S)} seed files, {len(tasks)} tasks, {total} loads")
    res = harness.pmap_nd(_w, tasks)
    run.merge(res)
    # growth pairs run afterwards on their own so that CPU times are not measured next to 16 busy neighbours of another kind
    gtasks = []
    gpairs = 0
    for name in names:
        ft, data = S[name]
        ng = len(growth_specs(data, tier))
        gpairs += ng
        for route in ROUTES.get(ft, ["load"])[:1]:
            for lo in range(0, ng, 40):
                gtasks.append((name, ft, data, tier, route, lo, min(ng, lo + 40)))
    run.log(f"growth: {gpairs} (range, k / 4k) pairs in {len(gtasks)} tasks")
    run.merge(harness.pmap_nd(_w_growth, gtasks))
    cov = {
        "exhaustive": not strided,
        "caps": ("quick tier: seeds above 1500 bytes (" + ", ".join(strided) + ") are enumerated on a fixed grid (every 4th truncation length, byte faults at every 16th offset, numeric tokens of the first 1500 bytes); all other seeds and, in the thorough tier, all seeds at every offset") if strided else "none",
        "seeds": {k: len(v[1]) for k, v in S.items()},
        "rule": "for each seed file: every truncation length; every offset x 11-value byte alphabet; every numeric token / aligned header integer x extreme values; swaps, duplications and removals of lines / aligned 4- and 16-byte chunks; splices with another valid file on a 16-byte grid; (thorough) pairs of byte faults on a stride-7 grid and all loader entry points; growth: every contiguous range of lines / 16-byte chunks (all ranges for seeds of <= 16 units, ranges of <= 2-3 units otherwise) repeated in place k and 4k times (k sized for 48 KiB quick / 128 KiB thorough), CPU time at 4k must not exceed 10x the time at k. distinct_nontrivial = distinct (format, fault class, exception type) outcomes observed",
        "loads": total + 2 * gpairs,
        "growth_pairs": gpairs,
    }
    return run.finish(cov, assumptions=["time bound: CPU <= max(2 s, 2 ms per input byte), soft limit 4 s, hard limit 20 s wall", "memory: peak RSS growth <= 256 MiB under a 2 GiB address-space cap", "a file object passed in by the caller is not required to be closed"], confirm_limit=6,
                      measured_prefixes=("loading time grows faster than the input", "loading takes CPU time out of proportion", "loading does not finish within the time bound"))
