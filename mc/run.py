"""
Entry point:  python -m mc.run <ID> [--tier quick|thorough] [--replay file [--keys]]
"""

import argparse
import importlib
import json
import os
import sys

from mc.core import harness

MODULES = {
    "C01": "mc.props.c01_cache",
    "C02": "mc.props.c02_hash",
    "C03": "mc.props.c03_mass",
    "C04": "mc.props.c04_transform",
    "C05": "mc.props.c05_topology",
    "C06": "mc.props.c06_grouping",
    "C07": "mc.props.c07_reindex",
    "C08": "mc.props.c08_roundtrip",
    "C09": "mc.props.c09_scenegraph",
    "C10": "mc.props.c10_scene",
    "C11": "mc.props.c11_section",
    "C12": "mc.props.c12_ray",
    "C13": "mc.props.c13_voxel",
    "C14": "mc.props.c14_path",
    "C15": "mc.props.c15_creation",
    "C16": "mc.props.c16_bounds",
    "C17": "mc.props.c17_copy",
    "C18": "mc.props.c18_repair",
    "C19": "mc.props.c19_rotations",
    "C20": "mc.props.c20_loadfaults",
}


def main():
    ap = argparse.ArgumentParser()
    ap.add_argument("pid")
    ap.add_argument("tier_pos", nargs="?", default=None)
    ap.add_argument("--tier", default=None)
    ap.add_argument("--replay", default=None)
    ap.add_argument("--keys", action="store_true")
    a = ap.parse_args()
    harness.setup_env()
    tier = a.tier or a.tier_pos or os.environ.get("VERIF_TIER") or "quick"
    seed = int(os.environ.get("VERIF_SEED", "0") or 0)
    mod = importlib.import_module(MODULES[a.pid])
    if a.replay:
        with open(a.replay) as f:
            rec = json.load(f)
        harness.seed_everything(seed)
        found = mod.replay(rec["case"])  # list of (key, detail)
        keys = sorted({k for k, _ in found})
        if a.keys:
            for k in keys:
                print("REPLAY-KEY " + k)
            return 0
        known = harness.load_known(a.pid)
        rc = 0
        for k, d in found:
            if k in known:
                print(f"KNOWN-FINDING: property={a.pid} {k}: {known[k].get('what', '')}")
            else:
                print(f"VIOLATION property={a.pid} replay={a.replay}  key={k!r}")
                print("   detail:", json.dumps(harness.jsonable(d))[:1000])
                rc = 1
        if not found:
            print(f"replay: no violation (recorded key {rec.get('key')!r} not reproduced)")
        return rc
    run = harness.Run(a.pid, mod.LEVEL, tier, seed, MODULES[a.pid])
    return mod.main(run)


if __name__ == "__main__":
    sys.exit(main())
