"""
Engine E1: explicit-state breadth-first search over operation histories of real objects.

A state is represented by a history (list of JSON-able actions) from a named start;
live objects are never copied, they are rebuilt by replaying the history on a fresh
object.  States are merged on `system.canon(...)`.  The invariant is evaluated for
every transition target on fresh replays.  Level-synchronous, levels are expanded on
a fork pool; results are consumed in task order so that the search is deterministic.

A `system` object provides:
  starts()                         -> list of start names
  build(start, hist)               -> ctx (real object(s) + reference model), replaying hist
  actions(ctx)                     -> list of actions enabled in that state (JSON-able)
  cost(action)                     -> deviation cost of an action (default 0)
  canon(ctx)                       -> hashable canonical form
  check(start, hist)               -> list of (key, detail) ; builds its own replays
  observe_names(ctx) (optional)    -> for vacuity statistics
`build` must apply actions with `system.apply(ctx, action)`, which returns an observation
compared step-by-step by `check`.
"""

import hashlib

from . import harness

_SYSTEM = None


def _digest(c):
    return hashlib.blake2b(repr(c).encode(), digest_size=12).digest()


def _expand(task):
    """Expand one state: apply every enabled action, return per-action records."""
    start, hist, budget = task
    s = _SYSTEM
    out = []
    ctx = s.build(start, hist)
    acts = s.actions(ctx)
    for a in acts:
        c = s.cost(a)
        if c > budget:
            continue
        h2 = hist + [a]
        try:
            ctx2 = s.build(start, h2)
            canon = _digest(s.canon(ctx2))
        except Exception as e:  # build itself must not raise: apply() catches
            out.append((a, None, [("harness:build-raised", repr(e))], c, None))
            continue
        viol = s.check(start, h2)
        # optional vacuity statistic: is this transition one on which the oracle had something to decide?
        nt = s.nontrivial(ctx2, h2) if hasattr(s, "nontrivial") else None
        out.append((a, canon, viol, c, nt))
    return out


def bfs(system, run, max_depth, max_dev=None, state_cap=None):
    """
    Returns dict with states, transitions, depth_completed, frontier_closed, pruned.
    Violations are recorded in run.tally with the (start, history) as the case.
    """
    global _SYSTEM
    _SYSTEM = system
    seen = set()
    frontier = []  # (start, hist, remaining budget)
    states = transitions = pruned = checked = 0
    nontrivial = set()
    big = 10**9 if max_dev is None else max_dev
    for st in system.starts():
        ctx = system.build(st, [])
        d = _digest(system.canon(ctx))
        viol = system.check(st, [])
        for k, det in viol:
            run.tally.violation(k, {"start": st, "history": []}, det)
        if d not in seen:
            seen.add(d)
            states += 1
            if not viol:
                frontier.append((st, [], big))
    depth = 0
    capped = False
    per_depth = []
    while frontier and depth < max_depth:
        results = harness.pmap(_expand, frontier, chunksize=max(1, len(frontier) // 256))
        nxt = []
        for (st, hist, budget), recs in zip(frontier, results):
            for a, canon, viol, c, nt in recs:
                transitions += 1
                if nt is not None:
                    checked += 1
                    if nt and canon is not None:
                        nontrivial.add(canon)
                if viol:
                    pruned += 1
                    for k, det in viol:
                        run.tally.violation(k, {"start": st, "history": hist + [a]}, det)
                    continue
                if canon in seen:
                    continue
                seen.add(canon)
                states += 1
                nxt.append((st, hist + [a], budget - c))
        depth += 1
        per_depth.append({"depth": depth, "new_states": len(nxt), "transitions_total": transitions})
        run.log(f"bfs depth {depth}: states={states} transitions={transitions} frontier={len(nxt)} pruned={pruned}")
        frontier = nxt
        if state_cap and states > state_cap:
            capped = True
            break
    return {
        "states": states,
        "transitions": transitions,
        "depth_completed": depth,
        "frontier_closed": len(frontier) == 0,
        "pruned_at_violation": pruned,
        "capped": capped,
        "per_depth": per_depth,
        "last_frontier": len(frontier),
        "oracle_transitions": checked,
        "nontrivial_states": len(nontrivial),
    }
