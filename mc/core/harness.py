"""
Common harness for every check: environment, parallel map, violation keys,
known findings, replay files, determinism confirmation, evidence.

Exit codes: 0 = property held on everything explored (KNOWN-FINDING lines allowed),
1 = at least one VIOLATION line, 2 = harness error (nondeterminism, evidence schema).
"""

import collections
import hashlib
import json
import multiprocessing
import os
import re
import subprocess
import sys
import time

VERIF = os.path.dirname(os.path.dirname(os.path.dirname(os.path.abspath(__file__))))
REPO = os.environ.get("VERIF_REPO", "/repo")
NPROC = int(os.environ.get("VERIF_NPROC", "16"))


def setup_env():
    """Put the repository under test first on sys.path and pin the environment."""
    if sys.path[0] != REPO:
        sys.path.insert(0, REPO)
    os.environ.setdefault("OPENBLAS_NUM_THREADS", "1")
    os.environ.setdefault("OMP_NUM_THREADS", "1")
    os.environ.setdefault("MKL_NUM_THREADS", "1")
    sys.dont_write_bytecode = True
    # the library logs tracebacks for fallbacks it handles itself: keep check output readable
    import logging
    import warnings

    logging.getLogger("trimesh").setLevel(logging.CRITICAL + 1)
    logging.getLogger("trimesh").addHandler(logging.NullHandler())
    logging.lastResort = None
    warnings.filterwarnings("ignore")


def seed_everything(seed, index=0):
    """Own library-internal randomness: np.random / random."""
    import random

    import numpy as np

    s = (int(seed) * 1000003 + int(index)) % (2**32)
    np.random.seed(s)
    random.seed(s)


def jsonable(x):
    """Best-effort conversion of cases / observations into JSON data."""
    import numpy as np

    if isinstance(x, dict):
        return {str(k): jsonable(v) for k, v in x.items()}
    if isinstance(x, (list, tuple, set, frozenset)):
        return [jsonable(v) for v in x]
    if isinstance(x, np.ndarray):
        return jsonable(x.tolist())
    if isinstance(x, (np.integer,)):
        return int(x)
    if isinstance(x, (np.floating,)):
        return jsonable(float(x))
    if isinstance(x, (np.bool_,)):
        return bool(x)
    if isinstance(x, float):
        if x != x:
            return "nan"
        if x in (float("inf"), float("-inf")):
            return "inf" if x > 0 else "-inf"
        return x
    if isinstance(x, (int, str, bool)) or x is None:
        return x
    if isinstance(x, bytes):
        return {"__bytes_hex__": x.hex()}
    return repr(x)


def unjson_bytes(x):
    if isinstance(x, dict) and "__bytes_hex__" in x:
        return bytes.fromhex(x["__bytes_hex__"])
    return x


def slug(key):
    s = re.sub(r"[^A-Za-z0-9_.+-]+", "_", key)[:80]
    return s + "-" + hashlib.sha1(key.encode()).hexdigest()[:8]


# ----------------------------------------------------------------------------
# parallel map over tasks (fork pool; workers are long-lived)
# ----------------------------------------------------------------------------


def _worker_init():
    setup_env()


def pmap(func, tasks, nproc=None, chunksize=1, ordered=True):
    """
    Apply a top-level function to every task on a fork pool.  Results are
    returned in task order (so evidence and first-counterexample choice do not
    depend on scheduling).
    """
    tasks = list(tasks)
    nproc = nproc or NPROC
    if nproc <= 1 or len(tasks) <= 1:
        return [func(t) for t in tasks]
    ctx = multiprocessing.get_context("fork")
    with ctx.Pool(min(nproc, len(tasks)), initializer=_worker_init) as pool:
        return pool.map(func, tasks, chunksize=chunksize)


def _nd_worker(conn, func, tasks, idx):
    _worker_init()
    out = []
    for i in idx:
        try:
            out.append((i, func(tasks[i])))
        except Exception as e:  # a crashed task must not take the others down
            t = Tally()
            t.violation("harness: task crashed", {"task_index": i}, {"exc": repr(e)[:400]})
            out.append((i, t))
    conn.send(out)
    conn.close()


def pmap_nd(func, tasks, nproc=None):
    """
    Like pmap but with non-daemonic worker processes (they may start children themselves,
    which the sandbox engine needs).  Tasks are dealt round-robin; results in task order.
    """
    tasks = list(tasks)
    nproc = min(nproc or NPROC, max(1, len(tasks)))
    ctx = multiprocessing.get_context("fork")
    procs = []
    for w in range(nproc):
        idx = list(range(w, len(tasks), nproc))
        parent, child = ctx.Pipe(duplex=False)
        p = ctx.Process(target=_nd_worker, args=(child, func, tasks, idx))
        p.daemon = False
        p.start()
        child.close()
        procs.append((p, parent, idx))
    results = [None] * len(tasks)
    for p, parent, idx in procs:
        try:
            for i, r in parent.recv():
                results[i] = r
        except EOFError:
            for i in idx:
                if results[i] is None:
                    t = Tally()
                    t.violation("harness: worker process died", {"task_index": i}, {"exitcode": p.exitcode})
                    results[i] = t
        p.join()
    return results


class Tally:
    """What a worker returns: counts, violations, samples.  Mergeable."""

    def __init__(self):
        self.evaluations = 0
        self.nontrivial = set()  # hashes of distinct non-trivial cases
        self.nontrivial_count = 0  # when distinctness is by construction
        self.violations = []  # (key, case, detail)
        self.stats = collections.Counter()
        self.samples = []
        self.outcomes = collections.defaultdict(set)  # reader -> set of outcome hashes

    def violation(self, key, case, detail):
        # keep the first (simplest) case per key inside a worker
        for k, _, _ in self.violations:
            if k == key:
                self.stats["violations_dup"] += 1
                return
        self.violations.append((key, jsonable(case), jsonable(detail)))

    def sample(self, s, limit=3):
        if len(self.samples) < limit:
            self.samples.append(jsonable(s))

    def merge(self, other):
        self.evaluations += other.evaluations
        self.nontrivial |= other.nontrivial
        self.nontrivial_count += other.nontrivial_count
        for v in other.violations:
            self.violation(*v)
        self.stats.update(other.stats)
        for s in other.samples:
            self.sample(s, limit=6)
        for k, v in other.outcomes.items():
            self.outcomes[k] |= v
        return self


def generic_state(obj, depth=3, _seen=None):
    """
    Name-agnostic canonical form of an object's private state: instance attributes walked to a depth, arrays and
    containers digested.  Used as the fall-back state abstraction when a check cannot find the private fields it
    knows by name (a refactor renamed them): finer than necessary (fewer states merge), never coarser.
    """
    import numpy as _np

    _seen = set() if _seen is None else _seen
    if id(obj) in _seen:
        return "<cycle>"
    _seen.add(id(obj))
    if isinstance(obj, _np.ndarray):
        return ("nd", obj.shape, str(obj.dtype), short_hash(obj.tobytes()))
    if isinstance(obj, (str, bytes, int, float, bool, type(None))):
        return obj if not isinstance(obj, float) else repr(obj)
    if isinstance(obj, dict):
        return ("dict", tuple(sorted(((repr(k), generic_state(v, depth - 1, _seen)) for k, v in list(obj.items())), key=repr))) if depth > 0 else ("dict", len(obj))
    if isinstance(obj, (list, tuple, set, frozenset)):
        return (type(obj).__name__, tuple(generic_state(v, depth - 1, _seen) for v in list(obj)[:64])) if depth > 0 else (type(obj).__name__, len(obj))
    d = getattr(obj, "__dict__", None)
    if d is None or depth <= 0:
        return type(obj).__name__
    return (type(obj).__name__, tuple((k, generic_state(v, depth - 1, _seen)) for k, v in sorted(d.items())))


def short_hash(obj):
    return hashlib.blake2b(repr(obj).encode(), digest_size=8).digest()


# ----------------------------------------------------------------------------
# known findings
# ----------------------------------------------------------------------------


def load_known(pid):
    path = os.path.join(VERIF, "known_findings.json")
    if not os.path.exists(path):
        return {}
    with open(path) as f:
        data = json.load(f)
    return {e["key"]: e for e in data.get("findings", []) if e["property"] == pid}


# ----------------------------------------------------------------------------
# a run of one check
# ----------------------------------------------------------------------------


class Run:
    def __init__(self, pid, level, tier, seed, module):
        self.pid = pid
        self.level = level
        self.tier = tier
        self.seed = seed
        self.module = module  # dotted module name providing replay(case)
        self.t0 = time.time()
        self.tally = Tally()
        self.notes = []

    def log(self, *a):
        print(f"[{self.pid} {time.time() - self.t0:6.1f}s]", *a, flush=True)

    def merge(self, tallies):
        for t in tallies:
            self.tally.merge(t)

    # -- finishing -----------------------------------------------------------

    def _write_replay(self, key, case, detail):
        d = os.path.join(os.environ.get("VERIF_OUT", VERIF), "replays", self.pid)
        os.makedirs(d, exist_ok=True)
        path = os.path.join(d, slug(key) + ".json")
        with open(path, "w") as f:
            json.dump(
                {"property": self.pid, "key": key, "case": case, "detail": detail},
                f,
                indent=1,
            )
        return path

    def _confirm(self, path, key):
        """Re-execute the replay file twice in fresh processes: both must
        report the identical set of keys, and it must include this key."""
        outs = []
        for _ in range(2):
            env = dict(os.environ)
            env["VERIF_SEED"] = str(self.seed)
            p = subprocess.run(
                [sys.executable, "-B", "-m", "mc.run", self.pid, "--replay", path, "--keys"],
                cwd=VERIF,
                env=env,
                capture_output=True,
                text=True,
                timeout=1800,
            )
            keys = sorted(
                line[len("REPLAY-KEY ") :]
                for line in p.stdout.splitlines()
                if line.startswith("REPLAY-KEY ")
            )
            outs.append((p.returncode, keys))
            if p.returncode not in (0, 1) or "Traceback" in p.stderr:
                print("replay stderr tail:", p.stderr[-600:], flush=True)
        if outs[0] != outs[1]:
            return "nondeterministic", outs
        if key not in outs[0][1]:
            return "not-reproduced", outs
        return "ok", outs

    def finish(self, coverage, assumptions=(), confirm_limit=12, measured_prefixes=()):
        """measured_prefixes: keys whose verdict rests on a time measurement.  If such a violation is not
        reproduced by either of the two replays in fresh processes it was a disturbed measurement (busy machine):
        it is dropped and listed in the evidence instead of being reported or treated as a harness error."""
        known = load_known(self.pid)
        viol = self.tally.violations
        new, listed = [], []
        for key, case, detail in viol:
            (listed if key in known else new).append((key, case, detail))
        rc = 0
        # known findings: print one line each (only when they actually occur)
        for key, case, detail in listed:
            print(f"KNOWN-FINDING: property={self.pid} {key}: {known[key].get('what', '')}")
        # listed findings that this tier's enumeration did not pass through: re-execute their committed replay
        # files, so that every listed finding is looked at on every run
        observed = {k for k, _, _ in listed}
        replayed = []
        for key, entry in sorted(known.items()):
            if key in observed or not entry.get("replay"):
                continue
            try:
                import importlib

                with open(os.path.join(VERIF, entry["replay"])) as f:
                    case = json.load(f)["case"]
                seed_everything(self.seed)
                got = [k for k, _ in importlib.import_module(self.module).replay(case)]
            except Exception as e:
                print(f"NOTE property={self.pid} replay file of a listed finding could not be executed ({type(e).__name__}): {key}")
                continue
            if key in got:
                print(f"KNOWN-FINDING: property={self.pid} {key}: {entry.get('what', '')}")
                replayed.append(key)
            else:
                print(f"NOTE property={self.pid} listed finding is not reproduced by its replay file (repaired?): {key}")
        confirmed = 0
        for key, case, detail in new:
            path = self._write_replay(key, case, detail)
            if confirmed < confirm_limit:
                status, outs = self._confirm(path, key)
                confirmed += 1
                if status == "not-reproduced" and key.startswith(tuple(measured_prefixes) or ("\0",)) and not any(key in o[1] for o in outs):
                    print(f"NOTE property={self.pid} measurement not confirmed by two replays, dropped: {key}", flush=True)
                    self.tally.stats["time measurements not confirmed on replay (dropped)"] += 1
                    continue
                if status != "ok":
                    print(
                        f"HARNESS-ERROR property={self.pid} key={key!r} replay {status}: {outs}",
                        flush=True,
                    )
                    rc = max(rc, 2)
                    continue
            print(f"VIOLATION property={self.pid} replay={path}  key={key!r}")
            print(f"   detail: {json.dumps(detail)[:600]}")
            rc = max(rc, 1)
        t = self.tally
        cov = dict(coverage)
        cov.setdefault("evaluations", int(t.evaluations))
        cov.setdefault(
            "distinct_nontrivial", int(len(t.nontrivial) + t.nontrivial_count)
        )
        cov.setdefault("samples", t.samples[:6] or [{"note": "no sample recorded"}])
        cov["stats"] = {k: int(v) for k, v in sorted(t.stats.items())}
        cov["distinct_outcomes_per_reader"] = {
            k: len(v) for k, v in sorted(t.outcomes.items())
        }
        cov["known_findings_observed"] = sorted(k for k, _, _ in listed)
        cov["known_findings_reproduced_from_replay_files"] = sorted(replayed)
        cov["new_violation_keys"] = sorted(k for k, _, _ in new)
        ev = {
            "property_id": self.pid,
            "tier": self.tier,
            "seed": int(self.seed),
            "level": self.level,
            "coverage": cov,
            "assumptions": list(assumptions),
            "wall_s": round(time.time() - self.t0, 2),
            "violations": len(new),
        }
        # VERIF_OUT redirects evidence and replays of runs against a tree other than /repo (seeded-change runs)
        path = os.path.join(os.environ.get("VERIF_OUT", VERIF), "evidence", f"{self.pid}.json")
        os.makedirs(os.path.dirname(path), exist_ok=True)
        os.makedirs(os.path.dirname(path), exist_ok=True)
        try:
            import jsonschema

            with open(os.path.join(VERIF, "mc", "schemas", "EVIDENCE.schema.json")) as f:
                schema = json.load(f)
            jsonschema.validate(ev, schema)
        except ImportError:
            self.log("jsonschema missing: evidence not validated")
        except Exception as e:  # schema failure is a harness error
            print(f"HARNESS-ERROR evidence does not validate: {str(e)[:400]}")
            rc = max(rc, 2)
        with open(path, "w") as f:
            json.dump(ev, f, indent=1)
        self.log(
            f"done tier={self.tier} evaluations={cov['evaluations']} "
            f"nontrivial={cov['distinct_nontrivial']} states={cov.get('states')} "
            f"transitions={cov.get('transitions')} known={len(listed)} new={len(new)} rc={rc}"
        )
        return rc
