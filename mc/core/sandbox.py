"""
Engine E3: run many small "load these bytes" cases in resource-limited worker processes.

Each worker is a separate process (fork) with RLIMIT_AS, it announces every case before it
runs it, so when a worker dies (signal, hard timeout) the parent knows which case did it,
records the outcome and starts a new worker on the remaining cases.
"""

import gc
import multiprocessing
import os
import resource
import signal
import time
import traceback

AS_LIMIT = 2 * 1024**3
SOFT_SECONDS = 4.0  # CPU seconds per case (ITIMER_PROF: independent of how busy the machine is), raised inside the worker
HARD_SECONDS = 20.0  # per case, the parent kills the worker


class SoftTimeout(BaseException):
    pass


def _alarm(signum, frame):
    raise SoftTimeout()


def _fd_table():
    out = {}
    for f in os.listdir("/proc/self/fd"):
        try:
            out[f] = os.readlink("/proc/self/fd/" + f)
        except OSError:
            pass
    return out


def _worker(conn, func, cases, start, soft):
    """Child process: run cases[start:], reporting (index, 'start') then (index, outcome)."""
    try:
        resource.setrlimit(resource.RLIMIT_AS, (AS_LIMIT, AS_LIMIT))
    except Exception:
        pass
    signal.signal(signal.SIGPROF, _alarm)
    # third-party parsers print warnings for corrupt input: the worker's output is not part of the verdict
    try:
        null = os.open(os.devnull, os.O_WRONLY)
        os.dup2(null, 1)
        os.dup2(null, 2)
        os.close(null)
    except OSError:
        pass
    for i in range(start, len(cases)):
        conn.send((i, "start", None))
        fds0 = _fd_table()
        rss0 = resource.getrusage(resource.RUSAGE_SELF).ru_maxrss
        t0 = time.process_time()
        w0 = time.time()
        signal.setitimer(signal.ITIMER_PROF, soft)
        # what the call returned / raised stays referenced until the file table has been read: a file
        # the loader forgot to close must not be closed for it by the reference count dropping to zero
        keep = None
        try:
            keep = func(cases[i])
            out = ("ok", None)
        except SoftTimeout:
            out = ("timeout", None)
        except MemoryError:
            out = ("memory_error", None)
        except Exception as e:
            out = ("exception", type(e).__name__)
            keep = e
        except BaseException as e:  # SystemExit, KeyboardInterrupt, GeneratorExit ...
            out = ("base_exception", type(e).__name__)
        finally:
            signal.setitimer(signal.ITIMER_PROF, 0)
        cpu = time.process_time() - t0
        wall = time.time() - w0
        fds1 = _fd_table()
        leaked = sorted(v for k, v in fds1.items() if k not in fds0 and not v.startswith(("pipe:", "socket:", "anon_inode:")))
        if leaked:
            # only a file that survives a full collection is a leak (a cycle may keep it alive for a moment)
            gc.collect()
            fds1 = _fd_table()
            leaked = sorted(v for k, v in fds1.items() if k not in fds0 and not v.startswith(("pipe:", "socket:", "anon_inode:")))
        keep = None
        rss1 = resource.getrusage(resource.RUSAGE_SELF).ru_maxrss
        conn.send((i, "done", {"outcome": out, "cpu": cpu, "wall": wall, "leaked_fds": leaked, "peak_rss_growth_kb": max(0, rss1 - rss0)}))
    conn.send((len(cases), "end", None))
    conn.close()


def run_cases(func, cases, soft=SOFT_SECONDS, hard=HARD_SECONDS):
    """
    Run func(case) for every case in a sandboxed child; returns a list of result dicts
    (same order).  Results of cases that killed the worker have outcome ('crash', signal)
    or ('hard_timeout', None).
    """
    ctx = multiprocessing.get_context("fork")
    results = [None] * len(cases)
    start = 0
    while start < len(cases):
        parent, child = ctx.Pipe(duplex=False)
        p = ctx.Process(target=_worker, args=(child, func, cases, start, soft))
        p.daemon = True
        p.start()
        child.close()
        current = None
        ended = False
        while True:
            if parent.poll(hard):
                try:
                    i, what, data = parent.recv()
                except (EOFError, OSError):
                    break
                if what == "start":
                    current = i
                elif what == "done":
                    results[i] = data
                    current = None
                    start = i + 1
                elif what == "end":
                    ended = True
                    break
            else:
                # no message for HARD_SECONDS: the case hangs in native code
                if current is not None:
                    results[current] = {"outcome": ("hard_timeout", None), "cpu": hard, "wall": hard, "leaked_fds": [], "peak_rss_growth_kb": 0}
                    start = current + 1
                try:
                    p.kill()
                except Exception:
                    pass
                break
        p.join(5)
        if not ended and current is not None and results[current] is None:
            code = p.exitcode
            results[current] = {"outcome": ("crash", code), "cpu": 0.0, "wall": 0.0, "leaked_fds": [], "peak_rss_growth_kb": 0}
            start = current + 1
        elif not ended and current is None and not p.is_alive() and start < len(cases) and results[start] is None and p.exitcode not in (0, None):
            # died between cases
            results[start] = {"outcome": ("crash", p.exitcode), "cpu": 0.0, "wall": 0.0, "leaked_fds": [], "peak_rss_growth_kb": 0}
            start += 1
        if ended:
            break
        try:
            parent.close()
        except Exception:
            pass
    return results
